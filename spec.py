"""Repository-specific tables: which rules decide which clauses of which property.

A rule entry is either a rule id (all findings of the rule count) or (rule id, filter) where the filter
restricts the rule's findings to the source files the property is anchored in.
"""


def infile(*suffixes):
    def f(finding):
        fc = getattr(finding, "file_canon", None)      # the file's name before a module/file rename (see engines/rename.py)
        return (bool(finding.file) and finding.file.endswith(tuple(suffixes))) or (bool(fc) and fc.endswith(tuple(suffixes)))
    f.__doc__ = "findings in " + ", ".join(suffixes)
    return f


def infn(*parts):
    def f(finding):
        return any(p in finding.fn for p in parts)
    return f


ALG = ("algorithms/mod.rs", "algorithms/myers.rs", "algorithms/lcs.rs", "algorithms/patience.rs", "algorithms/utils.rs",
       "algorithms/hook.rs")
PIPE = ("algorithms/compact.rs", "algorithms/replace.rs", "algorithms/capture.rs", "common.rs", "types.rs")
A_ALL = ["A1", "A2", "A3", "A4", "A5", "A7", "A8", "A9", "A10", "A11"]
# The tokenizer rules: every property that reads tokens back as text depends on them.
TOKENIZER = ["F7", "F11", "F12", "F20", "F21", "F24"]
# Rules that are necessary for the captured op list to be a valid edit script at all; every property that reads text
# back out of the ops (C04 reconstruction, C05 hunks, C17 remapping) depends on them.
SCRIPT_VALID = ["E1", "E2", "E3", "E5", "E6", "E7", "E9", "E10", "G12", "B6", "B7", "B8", "G3", "G9", "G12", "G13", "G5", "G6", "G7", "B5", "F1", "F5", "F13"]


def a_rules(files, rules=A_ALL):
    return [(r, infile(*files)) for r in rules]


PROPERTIES = {
    "C01": {
        "level": "other",
        "rules": a_rules(ALG) + ["E1", "E2", "E3", "E5", "E6", "E7", "E9", "E10", "G12", "B6", "B7", "F15", "F17"],
        "explanation": "Decided for all inputs: (1) every index handed to a diff hook by the three algorithms, every index "
                       "into a caller-ranged sequence and every range passed between the algorithm functions is an absolute "
                       "position of the right side and coordinate frame (A1-A5, A7: sort inference over the type-checked HIR "
                       "of algorithms/*.rs); (2) every emitted length is positive on every path (E1: predicate dataflow over "
                       "MIR).  These are necessary conditions of 'index-exact' and 'nothing empty'; ordering, gap-freeness "
                       "as a statement about values, element-wise equality and panic-freedom are NOT examined.  Added in round 3: the two-sided snake calls are bounded on both sides (A10 guards), the dispatcher hands its arguments to the algorithm unchanged (F17), Patience never bypasses its anchors (B7) and unique() is absorbing (F15).",
        "undecided": "ordering/gap-freeness of the callback stream as values, equality of equal segments, panic-freedom",
    },
    "C02": {
        "level": "other",
        "rules": ["F1", "F2", "F33", "F5", "F29", "B5", "G3", "G13", "G5", "G6", "G7", "F13", "F16", "E2", "E3", "E5", "E6", "E7", "E9", "E10", "G12"] + a_rules(PIPE + ALG),
        "explanation": "Decided: the capture pipeline is Compact(Replace(Capture)) and returns that hook's ops (F1); Compact "
                       "replays every buffered op once, in order, then finishes, Replace flushes in order (B5); every op "
                       "constructed or forwarded in compact/replace/capture/common/types takes old-side fields from old-"
                       "side values and new-side fields from new-side values (A1-A5, A7); the shift/grow/shrink helpers "
                       "move both indices together (F5).  Slide amounts and ratio arithmetic are NOT examined.",
        "undecided": "that slide amounts are right (value reasoning over the 12 compaction arms), ratio clauses",
    },
    "C03": {
        "level": "other",
        "rules": [(r, infn("lcs::make_table", "lcs::diff_deadline")) for r in ("A2", "A3", "A5", "A10")] +
                 ["G3", "F13", "F17", "F18", "F19", "F29", "F14", "F6", ("A7", infn("myers::find_middle_snake"))] +
                 a_rules(("algorithms/compact.rs",), ["A4", "A9"]),
        "explanation": "Decided (one necessary condition only): the LCS table is built by reading the sequences through "
                       "positions derived from the requested ranges, and the walk reads the table with the same key slot "
                       "order it was written with (A2/A3/A5 restricted to lcs::make_table and lcs::diff_deadline).  "
                       "Minimality itself, tie-breaks and the Myers middle-snake overlap test are NOT examined.  Added in round 3 (still necessary conditions only): both middle-snake passes break ties with the same comparison (F18); the LCS table obeys diagonal+1 / max(down, right) (F19); the dispatcher does not alter ranges (F17).",
        "undecided": "optimality, tie-breaking, the middle-snake overlap test",
    },
    "C04": {
        "level": "other",
        "rules": ["G11", "F4", "F2", "F33", "F23"] + TOKENIZER + SCRIPT_VALID + [("A6", infile("text/abstraction.rs"))] +
                 a_rules(("iter.rs", "text/mod.rs") + ALG + PIPE),
        "explanation": "Decided: every Change constructor carries exactly the indices its tag allows and takes its value from "
                       "the proper side, per DiffTag arm (F4); both texts are tokenized by the same tokenizer in the right "
                       "slots and TextDiffConfig::diff stores the very token vectors it diffed (F2); indices in iter.rs / "
                       "text/mod.rs are positions of the right side (A2-A5).  Losslessness of the tokenizers (C06) and "
                       "consecutive numbering are NOT examined.  The script-validity rules (E1-E3, G3, G5-G7, B5, F1, F5, F13) are included because reconstruction reads the captured ops; tokenizer look-ahead discipline (F20/F21) because it reads the tokens.",
        "undecided": "tokenizer losslessness, consecutive numbering of indices",
    },
    "C05": {
        "level": "other",
        "rules": ["G11", "D1", "F8", "F10", "G2", "E8", "G8", "F25", "F27", "F28", "F7"] + SCRIPT_VALID + a_rules(("udiff.rs", "types.rs", "text/mod.rs", "common.rs")),
        "explanation": "Decided: no lossy decoding is reachable from the byte writers and each line is written with "
                       "write_all(as_bytes(value)) (D1: call graph incl. fmt::Display edges); Display and to_writer emit the "
                       "same (guard, template) sequence incl. header-once and missing-newline logic (F8); hunk header extents "
                       "pair old with old and new with new (A4); the header reads carried indices, which is sound only if no "
                       "unrepaired order-changing site exists (G2 -> known finding).  Counts vs body, applicability, context "
                       "sizes are NOT examined.  The script-validity rules (E1-E3, G3, G5-G7, B5, F1, F5, F13) are included because hunks are cut from the captured ops.",
        "undecided": "header counts vs hunk body, strict applicability, context radius arithmetic",
    },
    "C06": {
        "level": "other",
        "rules": TOKENIZER + [("A6", infile("text/abstraction.rs"))],
        "explanation": "Decided (necessary conditions only): the str and [u8] tokenizers use the same break characters and "
                       "character-class predicates (F7), and token boundaries are byte offsets advanced by byte lengths, never "
                       "by counts (A6 in abstraction.rs).  Losslessness, non-emptiness and token shapes are NOT examined.  F20: look-ahead never consumes; F21: no delegation to std line splitters (lone CR).",
        "undecided": "losslessness, non-emptiness, token shapes (index bookkeeping over runtime offsets)",
    },
    "C07": {
        "level": "other",
        "rules": ["C1", "C2", "C3", "C4", "C5", "C6", "B3", "E1", "E2", "E3", "E7"] +
                 [(r, infn("myers::conquer", "lcs::diff_deadline")) for r in ("A1", "A7")],
        "explanation": "Decided: every deadline carrier passes its own deadline to every deadline-taking callee and struct "
                       "(C1); the builder stores what it is given and into_instant/deadline_exceeded/duration_to_deadline use "
                       "their argument (C2); the two super-linear loop nests are probed at depth 1 with an exit edge (C3); after "
                       "expiry or a gave-up result no comparison is reachable (C4); nothing but the probe reads a deadline "
                       "(C5: a never-expiring deadline cannot change the result); finish happens exactly once on the expiry "
                       "paths too (B3) and fallback emissions are non-empty (E1).  The constant in 'small multiple of N+M' and "
                       "validity of the fallback script as values are NOT examined.",
        "undecided": "the work constant after expiry; value-level validity of the fallback script",
    },
    "C08": {
        "level": "proof",
        "rules": ["B1", "B2", "B3", "B4", "B5"],
        "explanation": "All clauses of the stated protocol are decided over the crate's code: error discipline at every hook-"
                       "result site (B1), nothing after an error (B2), trace summaries e* f for every driver x adapter stack by "
                       "composition through the resolved DiffHook impls (B3), forwarding tables (B4), buffer typestate of "
                       "Replace/Compact (B5).  Proof is relative to termination/panic-freedom and an opaque user hook.",
        "assumptions": ["one hook object per hook type per function (type-directed composition)"],
    },
    "C09": {
        "level": "other",
        "rules": ["E1", "B4", "B5", "B8", "F1", "G3", "G9", "G10", "G12", "G13", "G5", "G6", "G7", "F13", "F16", "F31"],
        "explanation": "Decided: no algorithm emits an empty op (E1); Replace merges runs and emits delete/replace before "
                       "insert, flushing in order (B5); both adapters are in the capture pipeline, Compact outside Replace (F1)."
                       "  Alternation after compaction and 'insertion sits at its latest position' are NOT examined.  Round 3: only an op tested to be Equal absorbs equal items (G7); merged same-kind ops grow by the right side (F13); the insert/delete slide-down arms are twins (F16); no stale op snapshot across list mutation (G5).",
        "undecided": "alternation after compaction, latest-position clause (value reasoning)",
    },
    "C10": {
        "level": "other",
        "rules": ["F5", "B4", "B5", "B8", "G3", "G9", "G10", "G12", "G13", "G5", "G6", "G7", "F13", "F16", "F31"] +
                 a_rules(("algorithms/compact.rs", "algorithms/replace.rs", "types.rs")),
        "explanation": "Decided (structural parts only): no slot or side mix-up in any compaction arm or in Replace (A1-A5, A7), "
                       "helpers move start and length consistently (F5), Replace/Compact typestate (B5), Compact buffers exactly "
                       "what it receives (B4 push rows).  Preservation of delete/insert counts is arithmetic and NOT examined.",
        "undecided": "that numbers of deleted/inserted items are preserved",
    },
    "C11": {
        "level": "other",
        "rules": ["G1", "G3", "G13", "G5", "G6", "G7", "F5", "F10", "F16", "A4", "A9", "A11", "E3", "E5", "E6", "E7", "E8", "B6",
                  ("A1", infile("types.rs", "algorithms/compact.rs", "algorithms/replace.rs", "algorithms/lcs.rs",
                                "algorithms/myers.rs", "algorithms/patience.rs"))],
        "explanation": "Decided: every order-changing operation on a list of ops is followed by a rewrite of the affected "
                       "elements (G1 -> two known unrepaired swap sites); shift/grow/shrink move both indices together (F5); "
                       "every DiffOp constructed anywhere takes old_index from an old-side and new_index from a new-side "
                       "position, carried fields included (A4).",
        "undecided": "exactness of the carried index as a number",
    },
    "C12": {
        "level": "other",
        "rules": ["G8", "F25", "F27", ("B4", infile("algorithms/capture.rs"))] + a_rules(("common.rs",), ["A4", "A5", "A7", "A9"]),
        "explanation": "Decided (one clause only): 'contain every non-Equal op exactly once, unchanged and in order'.  In "
                       "group_diff_ops every DiffOp that is constructed and every op field that is written in place belongs to "
                       "an Equal op; everything pushed into a group is the iterated op itself or a freshly cut Equal piece; "
                       "every iteration of the loop over the ops pushes, so no op is skipped (G8: MIR of common::"
                       "group_diff_ops); the cut Equal pieces take old-side fields from old-side values and new-side fields "
                       "from new-side values (A4/A5/A7/A9 in common.rs).  The amounts of context (min(n, available), > 2n, "
                       "which groups merge) are arithmetic over run lengths and are NOT examined.",
        "undecided": "all context-size clauses (min(n, available), interior runs at most 2n, when two changes share a group), "
                     "'never consist of Equal ops only'",
    },
    "C13": {
        "level": "other",
        "rules": ["G11", "F4", "F3", "F22", "F23", "B4"] + a_rules(("iter.rs", "types.rs")),
        "explanation": "Decided: per-variant tables of ChangesIter::next, as_tag_tuple, apply_to_hook and both iter_slices "
                       "(F3/F4: tags, Some/None indices, value side, Replace = deletes then inserts, twins identical); old "
                       "cursor indexes old, new cursor indexes new, apply_to_hook passes fields in slot order (A1/A2/A4).  "
                       "'One change per item' counts are NOT examined.  Round 3: forwarding hooks forward replace as replace (B4: re-applying an op to a borrowed capturing hook reproduces it); every arm of apply_to_hook, including refined ones, calls the same-named method (F3); no partial re-initialisation of an expansion iterator (F22).",
        "undecided": "counts of yielded changes",
    },
    "C14": {
        "level": "other",
        "rules": ["F2", "F33", "F6", "F14"] + a_rules(("text/mod.rs", "algorithms/utils.rs")),
        "explanation": "Decided: tokenizer wiring, stored algorithm and newline flag, both size branches use self.algorithm "
                       "(F2); the integer-mapping branch pairs old_lookup with old_range and new_lookup with new_range, offsets "
                       "come from the respective range starts (A3/A4); the two IdentifyDistinct loops are identical up to "
                       "old<->new with a shared map and counter (F6).  That equal ids mean equal items is hash-map semantics "
                       "and NOT examined.",
        "undecided": "id assignment equals item equality",
    },
    "C15": {
        "level": "other",
        "rules": ["F15", "B6", "B7", "F17", "F2", "F33", "E10", "F30"] + a_rules(("algorithms/patience.rs", "algorithms/utils.rs", "algorithms/myers.rs")) +
                 a_rules(("algorithms/compact.rs",), ["A4", "A9"]),
        "explanation": "Decided (one clause): anchors are translated from unique-list coordinates to original coordinates "
                       "only through original_index(), per side and per frame (A1-A5, A7 with frames U vs F0 in patience.rs "
                       "and unique()).  Maximality and the uniqueness filter are NOT examined.  Round 3: the dispatcher passes the caller's ranges unchanged (F17) and patience::diff_deadline runs Myers only on the Patience hook (B7), so the uniqueness analysis always sees the requested ranges and is never bypassed.",
        "undecided": "maximality of the anchor set, the uniqueness filter",
    },
    "C16": {
        "level": "other",
        "rules": ["F9", "F26", "F32", "F34", ("F4", infile("text/inline.rs")), ("C1", infile("text/inline.rs", "text/mod.rs"))] +
                 a_rules(("text/inline.rs",), A_ALL + ["A6"]) + TOKENIZER + [("A6", infile("text/abstraction.rs"))],
        "explanation": "Decided: tags/indices of assembled InlineChanges (F4, A4), side consistency of lookup/push_values use "
                       "(A3), byte-unit discipline of MultiLookup (A6), deadline plumbing of the inline diff (C1), emphasis only "
                       "in Delete/Insert/Replace arms and never on a newline segment (F9).  Concatenation equals the line is "
                       "NOT examined.",
        "undecided": "segments concatenate to the line",
    },
    "C17": {
        "level": "other",
        "rules": ["F3", "F2", "F33"] + TOKENIZER + SCRIPT_VALID + a_rules(("utils.rs", "text/mod.rs")) + [("A6", infile("src/utils.rs"))],
        "explanation": "Decided: source.slice receives byte offsets accumulated from token byte lengths (A6); the old remapper "
                       "is built from old text + old tokens, new from new (A3/A4); iter_slices twin agreement (F3); helper "
                       "wiring (F2).  Reconstruction and 'never panics' are NOT examined.  The script-validity rules (E1-E3, G3, G5-G7, B5, F1, F5, F13) are included because remapping reads the captured ops.",
        "undecided": "reconstruction of the texts, absence of panics",
    },
    "C20": {
        "level": "other",
        "rules": ["D2", "D3", "D4", "F6", "F14", "C5", "F2", "F33"] + TOKENIZER + a_rules(("text/mod.rs",), ["A3", "A4"]),
        "explanation": "Decided: the only order-sensitive hash iteration is sorted before use (D2); no clock/thread/env/"
                       "random/address dependence outside the deadline probe (D3, C5); items are only compared with ==/!= and "
                       "hashed, never ordered or formatted (D4: relabelling invariance); str and [u8] tokenizers classify "
                       "alike (F7).  Equality of str vs bytes ops depends on C06 and is NOT examined.  F20/F21: the str and [u8] line tokenizers scan for line ends themselves, with peek-only look-ahead, so both see the same boundaries.",
        "undecided": "str vs [u8] ops equality beyond the classification tables",
    },
}

# a rule listed twice (once through a group, once by hand) runs once; an unfiltered entry wins over a filtered one
for _p in PROPERTIES.values():
    _seen, _out = {}, []
    for _r in _p["rules"]:
        _rid = _r if isinstance(_r, str) else _r[0]
        if _rid in _seen and (isinstance(_r, str) or isinstance(_out[_seen[_rid]], str)):
            if isinstance(_r, str):
                _out[_seen[_rid]] = _r
            continue
        _seen[_rid] = len(_out)
        _out.append(_r)
    _p["rules"] = _out

NOT_APPLICABLE = {
    "C18": "get_close_matches: soundness of two numeric upper bounds and a float ranking; quantifies over values",
    "C19": "work bound: a complexity bound over runtime quantities; no sound static cost analysis in reach for the D loop",
}


# Reviewed exceptions: one finding key each, with the reason the property is not affected.  An excepted finding is
# reported in the evidence (`exceptions`) and counted as discharged; it is never a KNOWN-FINDING (that list is for
# genuine defects only).
EXCEPTIONS = {
    "A4:algorithms::compact::shift_diff_ops_up:one-sided-len:DiffOp.len:old_range.len()-suffix_len":
        "unreachable: in the (Delete, Equal) arm the suffix is measured against the Delete's new range, which is always "
        "empty, so suffix_len is 0 and the branch that builds this Equal is never taken; the expression is wrong-looking "
        "dead code, no captured op can carry it",
}
# An exception holds only while its premise does (engines.tables.PREMISES, re-evaluated on every run): if the arm starts
# measuring the suffix against a range that can be non-empty, the branch becomes reachable and the finding is reported.
EXCEPTION_PREMISES = {
    "A4:algorithms::compact::shift_diff_ops_up:one-sided-len:DiffOp.len:old_range.len()-suffix_len":
        "delete_arm_suffix_on_empty_range",
}
