"""Repository-specific tables: which rules decide which clauses of which property."""

PROPERTIES = {
    "C01": {
        "level": "other",
        "rules": ["A1", "A2", "A3", "A4", "A5", "A6", "A7"],
        "explanation": "static: coordinates",
    },
    "C09": {
        "level": "other",
        "rules": ["E1"],
        "explanation": "static: nothing empty emitted",
    },
    "C07": {
        "level": "other",
        "rules": ["C1", "C2", "C3", "C4", "C5"],
        "explanation": "static: deadline plumbing",
    },
    "C08": {
        "level": "other",
        "rules": ["B1", "B2", "B3", "B4", "B5"],
        "explanation": "static: hook protocol",
    },
    "C11": {
        "level": "other",
        "rules": ["G1"],
        "explanation": "static: order-changing operations on op lists",
    },
    "C20": {
        "level": "other",
        "rules": ["D2", "D3", "D4"],
        "explanation": "static: determinism effect rules",
    },
    "C05": {
        "level": "other",
        "rules": ["D1", "G2"],
        "explanation": "static: byte-exact writer path",
    },
}
