#[derive(Clone, Copy, Debug)]
pub enum DiffOp {
    Equal { old_index: usize, new_index: usize, len: usize },
    Delete { old_index: usize, old_len: usize, new_index: usize },
    Insert { old_index: usize, new_index: usize, new_len: usize },
    Replace { old_index: usize, old_len: usize, new_index: usize, new_len: usize },
}

#[derive(Clone, Copy, Debug, PartialEq, Eq)]
pub enum DiffTag {
    Equal,
    Delete,
    Insert,
    Replace,
}

impl DiffOp {
    pub fn tag(self) -> DiffTag {
        match self {
            DiffOp::Equal { .. } => DiffTag::Equal,
            DiffOp::Delete { .. } => DiffTag::Delete,
            DiffOp::Insert { .. } => DiffTag::Insert,
            DiffOp::Replace { .. } => DiffTag::Replace,
        }
    }

    pub fn grow_left(&mut self, _n: usize) {}

    pub fn is_empty(&self) -> bool {
        match *self {
            DiffOp::Equal { len, .. } => len == 0,
            DiffOp::Delete { old_len, .. } => old_len == 0,
            DiffOp::Insert { new_len, .. } => new_len == 0,
            DiffOp::Replace { old_len, new_len, .. } => old_len == 0 && new_len == 0,
        }
    }

    pub fn old_start(self) -> usize {
        match self {
            DiffOp::Equal { old_index, .. } => old_index,
            DiffOp::Delete { old_index, .. } => old_index,
            DiffOp::Insert { old_index, .. } => old_index,
            DiffOp::Replace { old_index, .. } => old_index,
        }
    }
}

/// control F22: `reset` re-initialises only part of what `new` derives from the op
pub struct Cursor {
    start: usize,
    pos: usize,
    tag: DiffTag,
}

impl Cursor {
    pub fn new(op: DiffOp) -> Cursor {
        let tag = op.tag();
        let start = op.old_start();
        Cursor { start, pos: start, tag }
    }

    pub fn f22_bad_reset(&mut self, op: DiffOp) {
        self.tag = op.tag();
    }
}

#[derive(Clone, Copy, Debug, PartialEq, Eq)]
pub enum ChangeTag {
    Equal,
    Delete,
    Insert,
}

pub struct Change<T> {
    pub tag: ChangeTag,
    pub old_index: Option<usize>,
    pub new_index: Option<usize>,
    pub value: T,
}
