#[derive(Clone, Copy, Debug)]
pub enum DiffOp {
    Equal { old_index: usize, new_index: usize, len: usize },
    Delete { old_index: usize, old_len: usize, new_index: usize },
    Insert { old_index: usize, new_index: usize, new_len: usize },
    Replace { old_index: usize, old_len: usize, new_index: usize, new_len: usize },
}
