//! control F20: an item is consumed just to be tested
pub fn f20_bad_lookahead(s: &str) -> usize {
    let mut iter = s.char_indices().peekable();
    let mut n = 0;
    while let Some((_, c)) = iter.next() {
        if c == '\r' && iter.next().map_or(false, |x| x.1 == '\n') {
            n += 1;
        }
    }
    n
}
