//! control F20: an item is consumed just to be tested
pub fn f20_bad_lookahead(s: &str) -> usize {
    let mut iter = s.char_indices().peekable();
    let mut n = 0;
    while let Some((_, c)) = iter.next() {
        if c == '\r' && iter.next().map_or(false, |x| x.1 == '\n') {
            n += 1;
        }
    }
    n
}

/// control F24: the inner loop advances the byte cursor by the width of the run's FIRST character
pub fn f24_bad_width(s: &str) -> Vec<&str> {
    let mut rv = vec![];
    let mut iter = s.char_indices().peekable();
    while let Some((start, c)) = iter.next() {
        let width = c.len_utf8();
        let mut end = start + width;
        while let Some(&(_, next_char)) = iter.peek() {
            if next_char.is_whitespace() != c.is_whitespace() {
                break;
            }
            iter.next();
            end += width;
        }
        rv.push(&s[start..end]);
    }
    rv
}

/// control F26: pieces are pushed with a running offset that the pushing loop never advances
pub fn f26_bad_offsets<'a>(words: &[&'a str]) -> Vec<(&'a str, usize, usize)> {
    let mut seqs = Vec::new();
    let mut offset = 0;
    for (idx, word) in words.iter().enumerate() {
        for piece in word.split('-') {
            seqs.push((piece, idx, offset));
        }
        offset += word.len();
    }
    seqs
}
