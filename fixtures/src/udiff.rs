//! control D3: a clock read outside deadline_support
use std::time::Instant;

pub fn d3_bad_clock() -> bool {
    let t = Instant::now();
    t.elapsed().as_nanos() % 2 == 0
}
