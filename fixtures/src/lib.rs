//! Positive controls for the simlint rules: tiny known-bad (and a few known-good) snippets that mirror the
//! module layout of `similar`, so that the same path-based rule tables apply.  Analysed by the same driver
//! and the same rule code on every run; a control that stops firing is a tool error.
#![allow(dead_code, unused_variables, unused_must_use, clippy::all)]
pub mod algorithms;
pub mod deadline_support;
pub mod iter;
pub mod text;
pub mod types;
pub mod udiff;
