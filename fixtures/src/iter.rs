//! control F23: the two blocks that yield a Delete change advance the index differently
use crate::types::{Change, ChangeTag, DiffTag};

pub struct ChangesIter {
    pub tag: DiffTag,
    pub old_i: usize,
    pub old_end: usize,
    pub old_index: usize,
}

impl ChangesIter {
    pub fn next(&mut self) -> Option<Change<usize>> {
        match self.tag {
            DiffTag::Delete => {
                if self.old_i < self.old_end {
                    let value = self.old_i;
                    self.old_i += 1;
                    self.old_index += 1;
                    Some(Change { tag: ChangeTag::Delete, old_index: Some(self.old_index - 1), new_index: None, value })
                } else {
                    None
                }
            }
            DiffTag::Replace => {
                if self.old_i < self.old_end {
                    let value = self.old_i;
                    self.old_i += 1;
                    Some(Change { tag: ChangeTag::Delete, old_index: Some(self.old_index), new_index: None, value })
                } else {
                    None
                }
            }
            _ => None,
        }
    }
}
