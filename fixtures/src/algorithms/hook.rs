pub trait DiffHook: Sized {
    type Error;
    fn equal(&mut self, old_index: usize, new_index: usize, len: usize) -> Result<(), Self::Error> {
        Ok(())
    }
    fn delete(&mut self, old_index: usize, old_len: usize, new_index: usize) -> Result<(), Self::Error> {
        Ok(())
    }
    fn insert(&mut self, old_index: usize, new_index: usize, new_len: usize) -> Result<(), Self::Error> {
        Ok(())
    }
    fn replace(&mut self, old_index: usize, old_len: usize, new_index: usize, new_len: usize) -> Result<(), Self::Error> {
        self.delete(old_index, old_len, new_index)?;
        self.insert(old_index, new_index, new_len)
    }
    fn finish(&mut self) -> Result<(), Self::Error> {
        Ok(())
    }
}
