pub trait DiffHook: Sized {
    type Error;
    fn equal(&mut self, old_index: usize, new_index: usize, len: usize) -> Result<(), Self::Error> {
        Ok(())
    }
    fn delete(&mut self, old_index: usize, old_len: usize, new_index: usize) -> Result<(), Self::Error> {
        Ok(())
    }
    fn insert(&mut self, old_index: usize, new_index: usize, new_len: usize) -> Result<(), Self::Error> {
        Ok(())
    }
    fn replace(&mut self, old_index: usize, old_len: usize, new_index: usize, new_len: usize) -> Result<(), Self::Error> {
        self.delete(old_index, old_len, new_index)?;
        self.insert(old_index, new_index, new_len)
    }
    fn finish(&mut self) -> Result<(), Self::Error> {
        Ok(())
    }
}

/// control B8: an adapter that buffers a pending deletion and may silently drop it
pub struct Buffering<D: DiffHook> {
    d: D,
    del: Option<(usize, usize, usize)>,
}

impl<D: DiffHook> Buffering<D> {
    /// bad: `filter` discards the pending deletion when the carried index differs
    pub fn b8_bad_filter_drops(&mut self, old_index: usize, old_len: usize, new_index: usize) {
        self.del = self
            .del
            .take()
            .filter(|&(_, _, n)| n == new_index)
            .map(|(o, l, n)| (o, l + old_len, n))
            .or(Some((old_index, old_len, new_index)));
    }

    /// good twin: the pending deletion is always extended or flushed
    pub fn b8_good_extend(&mut self, old_index: usize, old_len: usize, new_index: usize) -> Result<(), D::Error> {
        self.del = match self.del.take() {
            Some((o, l, n)) if n == new_index => Some((o, l + old_len, n)),
            Some((o, l, n)) => {
                self.d.delete(o, l, n)?;
                Some((old_index, old_len, new_index))
            }
            None => Some((old_index, old_len, new_index)),
        };
        Ok(())
    }
}

impl<D: DiffHook> DiffHook for Buffering<D> {
    type Error = D::Error;
    fn finish(&mut self) -> Result<(), Self::Error> {
        if let Some((o, l, n)) = self.del.take() {
            self.d.delete(o, l, n)?;
        }
        self.d.finish()
    }
}
