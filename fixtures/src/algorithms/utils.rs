use std::collections::HashMap;
use std::hash::Hash;
use std::ops::{Index, Range};

/// control D2: hash-map iteration order escapes (no sort)
pub fn d2_bad_unsorted<Idx>(lookup: &Idx, range: Range<usize>) -> Vec<usize>
where
    Idx: Index<usize> + ?Sized,
    Idx::Output: Hash + Eq,
{
    let mut by_item = HashMap::new();
    for index in range {
        by_item.insert(&lookup[index], index);
    }
    by_item.into_iter().map(|(_, x)| x).collect::<Vec<_>>()
}

/// known-good twin
pub fn d2_good_sorted<Idx>(lookup: &Idx, range: Range<usize>) -> Vec<usize>
where
    Idx: Index<usize> + ?Sized,
    Idx::Output: Hash + Eq,
{
    let mut by_item = HashMap::new();
    for index in range {
        by_item.insert(&lookup[index], index);
    }
    let mut rv = by_item.into_iter().map(|(_, x)| x).collect::<Vec<_>>();
    rv.sort();
    rv
}

pub fn common_suffix_len<Old, New>(old: &Old, old_range: Range<usize>, new: &New, new_range: Range<usize>) -> usize
where
    Old: Index<usize> + ?Sized,
    New: Index<usize> + ?Sized,
{
    old_range.len().min(new_range.len())
}

/// control A8: the old range is advanced, the new range is not, then both are used together
pub fn a8_bad_lockstep<Old, New>(old: &Old, mut old_range: Range<usize>, new: &New, new_range: Range<usize>) -> usize
where
    Old: Index<usize> + ?Sized,
    New: Index<usize> + ?Sized,
{
    let n = common_suffix_len(old, old_range.clone(), new, new_range.clone());
    old_range.end -= n;
    common_suffix_len(old, old_range.clone(), new, new_range.clone())
}

fn a11_pair(n: usize, m: usize) -> usize {
    n + m
}

/// control A11: the same private helper gets (old, new) at one call site and (old, old) at the other
pub fn a11_bad_pattern(old_range: Range<usize>, new_range: Range<usize>) -> usize {
    a11_pair(old_range.len(), new_range.len()) + a11_pair(old_range.len(), old_range.len())
}
