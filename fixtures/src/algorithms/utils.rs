use std::collections::HashMap;
use std::hash::Hash;
use std::ops::{Index, Range};

/// control D2: hash-map iteration order escapes (no sort)
pub fn d2_bad_unsorted<Idx>(lookup: &Idx, range: Range<usize>) -> Vec<usize>
where
    Idx: Index<usize> + ?Sized,
    Idx::Output: Hash + Eq,
{
    let mut by_item = HashMap::new();
    for index in range {
        by_item.insert(&lookup[index], index);
    }
    by_item.into_iter().map(|(_, x)| x).collect::<Vec<_>>()
}

/// known-good twin
pub fn d2_good_sorted<Idx>(lookup: &Idx, range: Range<usize>) -> Vec<usize>
where
    Idx: Index<usize> + ?Sized,
    Idx::Output: Hash + Eq,
{
    let mut by_item = HashMap::new();
    for index in range {
        by_item.insert(&lookup[index], index);
    }
    let mut rv = by_item.into_iter().map(|(_, x)| x).collect::<Vec<_>>();
    rv.sort();
    rv
}
