use std::collections::HashMap;
use std::hash::Hash;
use std::ops::{Index, Range};

/// control D2: hash-map iteration order escapes (no sort)
pub fn d2_bad_unsorted<Idx>(lookup: &Idx, range: Range<usize>) -> Vec<usize>
where
    Idx: Index<usize> + ?Sized,
    Idx::Output: Hash + Eq,
{
    let mut by_item = HashMap::new();
    for index in range {
        by_item.insert(&lookup[index], index);
    }
    by_item.into_iter().map(|(_, x)| x).collect::<Vec<_>>()
}

/// known-good twin
pub fn d2_good_sorted<Idx>(lookup: &Idx, range: Range<usize>) -> Vec<usize>
where
    Idx: Index<usize> + ?Sized,
    Idx::Output: Hash + Eq,
{
    let mut by_item = HashMap::new();
    for index in range {
        by_item.insert(&lookup[index], index);
    }
    let mut rv = by_item.into_iter().map(|(_, x)| x).collect::<Vec<_>>();
    rv.sort();
    rv
}

pub fn common_suffix_len<Old, New>(old: &Old, old_range: Range<usize>, new: &New, new_range: Range<usize>) -> usize
where
    Old: Index<usize> + ?Sized,
    New: Index<usize> + ?Sized,
{
    old_range.len().min(new_range.len())
}

/// control A8: the old range is advanced, the new range is not, then both are used together
pub fn a8_bad_lockstep<Old, New>(old: &Old, mut old_range: Range<usize>, new: &New, new_range: Range<usize>) -> usize
where
    Old: Index<usize> + ?Sized,
    New: Index<usize> + ?Sized,
{
    let n = common_suffix_len(old, old_range.clone(), new, new_range.clone());
    old_range.end -= n;
    common_suffix_len(old, old_range.clone(), new, new_range.clone())
}

fn a11_pair(n: usize, m: usize) -> usize {
    n + m
}

/// control A11: the same private helper gets (old, new) at one call site and (old, old) at the other
pub fn a11_bad_pattern(old_range: Range<usize>, new_range: Range<usize>) -> usize {
    a11_pair(old_range.len(), new_range.len()) + a11_pair(old_range.len(), old_range.len())
}

/// control G12: a reversed zip pairs items from the front
pub fn g12_bad_reversed_zip(old: &[u32], old_range: std::ops::Range<usize>, new: &[u32], new_range: std::ops::Range<usize>) -> usize {
    old_range
        .zip(new_range)
        .rev()
        .take_while(|&(i, j)| old[i] == new[j])
        .count()
}

/// silent twin: both sides reversed, then zipped -- and a reversed zip of two ranges of the same written length
pub fn g12_good_reversed_zip(old: &[u32], old_range: std::ops::Range<usize>, new: &[u32], new_range: std::ops::Range<usize>, n: usize) -> usize {
    let a = old_range
        .clone()
        .rev()
        .zip(new_range.clone().rev())
        .take_while(|&(i, j)| old[i] == new[j])
        .count();
    let b = (old_range.start..old_range.start + n)
        .zip(new_range.start..new_range.start + n)
        .rev()
        .count();
    a + b
}
