use std::ops::{Index, Range};

use crate::algorithms::hook::DiffHook;
use crate::deadline_support::{deadline_exceeded, Instant};

/// control B1: result of a hook call is dropped
pub fn b1_bad_ignored<D: DiffHook>(d: &mut D, n: usize) -> Result<(), D::Error> {
    let _ = d.equal(0, 0, n);
    d.finish()
}

/// control B1: `.ok()`
pub fn b1_bad_ok<D: DiffHook>(d: &mut D, n: usize) -> Result<(), D::Error> {
    d.delete(0, n, 0).ok();
    d.finish()
}

/// control B2: hook called again on the error path
pub fn b2_bad_after_error<D: DiffHook>(d: &mut D, n: usize) -> Result<(), D::Error> {
    if let Err(e) = d.insert(0, 0, n) {
        let _ = d.finish();
        return Err(e);
    }
    d.finish()
}

/// control B3: finish twice
pub fn diff<D: DiffHook>(d: &mut D, n: usize) -> Result<(), D::Error> {
    d.equal(0, 0, n)?;
    d.finish()?;
    d.finish()
}

/// control D4: ordering comparison on items
pub fn d4_bad_order<Old, New>(old: &Old, old_range: Range<usize>, new: &New, new_range: Range<usize>) -> bool
where
    Old: Index<usize> + ?Sized,
    New: Index<usize> + ?Sized,
    New::Output: PartialOrd<Old::Output>,
{
    new[new_range.start] < old[old_range.start]
}

/// control E1: unguarded emission; control A1: literal 0 as a position of a ranged sequence
pub fn e1_a1_bad<Old, New, D>(
    d: &mut D,
    old: &Old,
    old_range: Range<usize>,
    new: &New,
    new_range: Range<usize>,
) -> Result<(), D::Error>
where
    Old: Index<usize> + ?Sized,
    New: Index<usize> + ?Sized,
    D: DiffHook,
{
    d.delete(old_range.start, old_range.len(), new_range.start)?;
    d.equal(0, 0, new_range.len())?;
    Ok(())
}

/// control A2 / A4: relative index into a ranged sequence; old/new mix-up in a range
pub fn a2_bad_index<Old, New>(old: &Old, old_range: Range<usize>, new: &New, new_range: Range<usize>) -> usize
where
    Old: Index<usize> + ?Sized,
    New: Index<usize> + ?Sized,
    New::Output: PartialEq<Old::Output>,
{
    let mut n = 0;
    for i in 0..new_range.len() {
        if new[i] == old[old_range.start] {
            n += 1;
        }
    }
    let mixed = old_range.start..new_range.end;
    n + mixed.len()
}

/// control C1 / C5: a carrier that passes None on, and branches on its deadline
pub fn c1_bad_carrier<Old, New>(old: &Old, old_range: Range<usize>, new: &New, new_range: Range<usize>, deadline: Option<Instant>) -> usize
where
    Old: Index<usize> + ?Sized,
    New: Index<usize> + ?Sized,
    New::Output: PartialEq<Old::Output>,
{
    if deadline.is_some() {
        return 0;
    }
    c1_callee(old, old_range, new, new_range, None)
}

pub fn c1_callee<Old, New>(old: &Old, old_range: Range<usize>, new: &New, new_range: Range<usize>, deadline: Option<Instant>) -> usize
where
    Old: Index<usize> + ?Sized,
    New: Index<usize> + ?Sized,
    New::Output: PartialEq<Old::Output>,
{
    // control C3: depth-2 comparison nest without a probe
    let mut n = 0;
    for i in new_range.clone() {
        for j in old_range.clone() {
            if new[i] == old[j] {
                n += 1;
            }
        }
    }
    if deadline_exceeded(deadline) {
        return 0;
    }
    n
}

/// control E5: one call site drops the common prefix from the position it builds from the cursor
pub fn e5_bad_cursor_base<D: DiffHook>(d: &mut D, old_range: Range<usize>, new_range: Range<usize>, prefix: usize, n: usize) -> Result<(), D::Error> {
    let mut old_idx = 0;
    let mut new_idx = 0;
    while old_idx < n {
        d.equal(old_range.start + prefix + old_idx, new_range.start + prefix + new_idx, 1)?;
        old_idx += 1;
        new_idx += 1;
    }
    if old_idx < old_range.len() {
        d.delete(old_range.start + prefix + old_idx, old_range.len() - old_idx, new_range.start + new_idx)?;
    }
    d.finish()
}

/// control E6: the insert reuses a position computed before the delete consumed old items
pub fn e6_bad_stale_position<D: DiffHook>(d: &mut D, old_range: Range<usize>, new_range: Range<usize>, n: usize) -> Result<(), D::Error> {
    let mut old_idx = 0;
    let mut new_idx = 0;
    while old_idx < n {
        old_idx += 1;
        new_idx += 1;
    }
    let old_rest = old_range.start + old_idx;
    let new_rest = new_range.start + new_idx;
    if old_idx < old_range.len() {
        d.delete(old_rest, old_range.len() - old_idx, new_rest)?;
    }
    if new_idx < new_range.len() {
        d.insert(old_rest, new_rest, new_range.len() - new_idx)?;
    }
    d.finish()
}

/// control E7: the delete starts at the position the equal segment just consumed
pub fn e7_bad_position_reused<D: DiffHook>(d: &mut D, old_range: Range<usize>, new_range: Range<usize>, n: usize) -> Result<(), D::Error> {
    if n > 0 {
        d.equal(old_range.start, new_range.start, n)?;
    }
    if old_range.len() > n {
        d.delete(old_range.start, old_range.len() - n, new_range.start + n)?;
    }
    d.finish()
}

/// control E8: the insert carries the old position the delete just consumed
pub fn e8_bad_carried_position<D: DiffHook>(d: &mut D, old_range: Range<usize>, new_range: Range<usize>) -> Result<(), D::Error> {
    if !old_range.is_empty() && !new_range.is_empty() {
        d.delete(old_range.start, old_range.end - old_range.start, new_range.start)?;
        d.insert(old_range.start, new_range.start, new_range.end - new_range.start)?;
    }
    d.finish()
}

/// silent twin of E8: the insert carries the end of the deleted block
pub fn e8_good_carried_position<D: DiffHook>(d: &mut D, old_range: Range<usize>, new_range: Range<usize>) -> Result<(), D::Error> {
    if !old_range.is_empty() && !new_range.is_empty() {
        d.delete(old_range.start, old_range.end - old_range.start, new_range.start)?;
        d.insert(old_range.end, new_range.start, new_range.end - new_range.start)?;
    }
    d.finish()
}
