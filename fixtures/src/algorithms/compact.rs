use crate::types::DiffOp;

/// control G1: permutes ops and never rewrites the carried indices
pub fn g1_bad_swap(ops: &mut Vec<DiffOp>, pointer: usize) {
    if pointer + 1 < ops.len() {
        ops.swap(pointer, pointer + 1);
    }
}

/// known-good twin: both elements are rewritten after the swap
pub fn g1_good_swap(ops: &mut Vec<DiffOp>, pointer: usize) {
    if pointer + 1 < ops.len() {
        ops.swap(pointer, pointer + 1);
        ops[pointer] = DiffOp::Equal { old_index: 0, new_index: 0, len: 1 };
        ops[pointer + 1] = DiffOp::Equal { old_index: 1, new_index: 1, len: 1 };
    }
}
