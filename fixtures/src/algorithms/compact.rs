use crate::types::DiffOp;

/// control G1: permutes ops and never rewrites the carried indices
pub fn g1_bad_swap(ops: &mut Vec<DiffOp>, pointer: usize) {
    if pointer + 1 < ops.len() {
        ops.swap(pointer, pointer + 1);
    }
}

/// known-good twin: both elements are rewritten after the swap
pub fn g1_good_swap(ops: &mut Vec<DiffOp>, pointer: usize) {
    if pointer + 1 < ops.len() {
        ops.swap(pointer, pointer + 1);
        ops[pointer] = DiffOp::Equal { old_index: 0, new_index: 0, len: 1 };
        ops[pointer + 1] = DiffOp::Equal { old_index: 1, new_index: 1, len: 1 };
    }
}

/// control G7: equal items are handed to a neighbour whose tag was never tested
pub fn g7_bad_absorb<Old, New>(ops: &mut Vec<DiffOp>, old: &Old, new: &New, pointer: usize)
where
    Old: std::ops::Index<usize> + ?Sized,
    New: std::ops::Index<usize> + ?Sized,
{
    let suffix_len = crate::algorithms::utils::common_suffix_len(old, 0..1, new, 0..1);
    if pointer + 1 < ops.len() {
        ops[pointer + 1].grow_left(suffix_len);
    }
}

/// control G9: dedup_by removes its FIRST closure argument; growing that one loses the items
pub fn g9_bad_dedup(ops: &mut Vec<DiffOp>) {
    ops.dedup_by(|prev, next| match (prev, next) {
        (DiffOp::Delete { old_len, .. }, DiffOp::Delete { old_len: next_len, .. }) => {
            *old_len += *next_len;
            true
        }
        _ => false,
    });
}

/// silent twin of G9: the retained (second) argument grows
pub fn g9_good_dedup(ops: &mut Vec<DiffOp>) {
    ops.dedup_by(|later, kept| match (later, kept) {
        (DiffOp::Delete { old_len: later_len, .. }, DiffOp::Delete { old_len, .. }) => {
            *old_len += *later_len;
            true
        }
        _ => false,
    });
    ops.retain(|op| !op.is_empty());
}
