pub mod compact;
pub mod hook;
pub mod lcs;
pub mod utils;
