pub use std::time::Instant;

pub fn deadline_exceeded(deadline: Option<Instant>) -> bool {
    match deadline {
        Some(deadline) => Instant::now() > deadline,
        None => false,
    }
}
