"""Whole-crate call graph over MIR, including trait dispatch and `fmt` argument edges."""
from collections import defaultdict
from .facts import targs


def peel(tyj):
    while isinstance(tyj, dict) and tyj.get("k") in ("ref", "ptr"):
        tyj = tyj["t"]
    return tyj


def ty_head(tyj):
    """Head constructor of a type: adt path / prim name / 'slice' / 'param:X'."""
    t = peel(tyj)
    if not isinstance(t, dict):
        return None
    k = t.get("k")
    if k == "adt":
        return t["path"]
    if k == "prim":
        return t["n"]
    if k == "slice":
        return "[%s]" % (ty_head(t["t"]) or "?")
    if k == "param":
        return "param:" + t["n"]
    if k == "alias":
        return "alias:" + t.get("path", "?")
    return k


FMT_ARG = {
    "core::fmt::rt::Argument::<'_>::new_display": "std::fmt::Display",
    "core::fmt::rt::Argument::<'_>::new_debug": "std::fmt::Debug",
    "core::fmt::rt::Argument::<'_>::new_lower_hex": "std::fmt::LowerHex",
}


class CallGraph:
    def __init__(self, prog):
        self.prog = prog
        self.edges = defaultdict(set)        # fn path -> set(node)
        self.sites = defaultdict(list)       # (caller, callee node) -> [(line, src)]
        self.impl_methods = defaultdict(list)  # (trait, method) -> [(self head, fn path)]
        for imp in prog.impls:
            if imp["trait"]:
                for m in imp["methods"]:
                    self.impl_methods[(imp["trait"]["path"], m["name"])].append((ty_head(imp["self_ty"]), m["path"]))
        for fn in prog.fn_list:
            if fn.mir:
                self._scan(fn)

    def _add(self, caller, node, line, src):
        self.edges[caller].add(node)
        self.sites[(caller, node)].append((line, src))

    def _fn_operands(self, fn):
        """fn items / closures mentioned as values (passed to adapters)."""
        m = fn.mir

        def ops_of_rv(rv):
            k = rv["k"]
            if k in ("use", "cast"):
                yield rv["op"]
            elif k == "binop":
                yield rv["l"]
                yield rv["r"]
            elif k == "aggregate":
                for o in rv["ops"]:
                    yield o
                if rv.get("ak") == "closure":
                    yield {"k": "closure", "path": rv["closure"]}
            elif k == "repeat":
                yield rv["op"]

        for b in m.blocks:
            for s in b["stmts"]:
                if s["k"] == "assign":
                    for o in ops_of_rv(s["rv"]):
                        yield o, s["line"]
            t = b["term"]
            if t["k"] == "call":
                for a in t["args"]:
                    yield a, t["line"]

    def _scan(self, fn):
        m = fn.mir
        for o, line in self._fn_operands(fn):
            if o.get("k") == "const" and o.get("fn"):
                self._callee_edges(fn, o["fn"], line, "fn item as value")
            elif o.get("k") == "closure":
                self._add(fn.path, o["path"], line, "closure")
            elif o.get("k") == "const" and "closure@" in (o.get("ty") or ""):
                pass
        for c in self.prog.closures_of.get(fn.path, []):
            # closures are reachable from their parent (zero-sized closure values are consts)
            if fn.kind != "Closure":
                self._add(fn.path, c.path, c.line, "closure")
        for bb, t in m.calls():
            c = m.callee(t)
            if not c:
                self._add(fn.path, "<indirect>", t["line"], t.get("src", ""))
                continue
            self._callee_edges(fn, c, t["line"], t.get("src", ""))

    def _callee_edges(self, fn, c, line, src):
        path = c["path"]
        if path in FMT_ARG and targs(c):
            tr = FMT_ARG[path]
            head = ty_head(targs(c)[0])
            hit = False
            for h, mp in self.impl_methods.get((tr, "fmt"), []):
                if h == head:
                    self._add(fn.path, mp, line, src + " [fmt %s]" % tr)
                    hit = True
            if not hit:
                self._add(fn.path, "%s::fmt@%s" % (tr, head), line, src)
            return
        if c.get("trait"):
            if c.get("resolved"):
                self._add(fn.path, c["resolved"], line, src)
                return
            node = "%s::%s" % (c["trait"], c["method"])
            self._add(fn.path, node, line, src)
            # conservative: every impl in this crate whose head could match
            head = ty_head(c.get("self_ty"))
            for h, mp in self.impl_methods.get((c["trait"], c["method"]), []):
                if head is None or head.startswith("param:") or head.startswith("alias:") or h == head:
                    self._add(fn.path, mp, line, src + " [any impl]")
            return
        self._add(fn.path, path, line, src)

    def reach(self, start, stop=()):
        """All nodes reachable from `start`; returns dict node -> predecessor (for path printing)."""
        pred = {start: None}
        st = [start]
        while st:
            n = st.pop()
            if n in stop:
                continue
            for s in sorted(self.edges.get(n, ())):
                if s not in pred:
                    pred[s] = n
                    st.append(s)
        return pred

    def path_to(self, pred, node):
        p = []
        while node is not None:
            p.append(node)
            node = pred[node]
        return list(reversed(p))
