"""Developer tool: pretty-print the exported MIR of a function.

usage: python3 -m engines.show <config> <fn path suffix> [--root DIR] [--calls]
"""
import sys
import json
from . import runner
from .facts import Program, place_key, const_int


def op_s(m, op):
    if op["k"] in ("copy", "move"):
        return pl_s(m, op["p"])
    if op["k"] == "const":
        if op.get("fn"):
            return op["fn"]["path_args"]
        return op.get("val", "?")
    return "?" + op["k"]


def pl_s(m, p):
    n = m.local_name(p["l"])
    s = "_%d" % p["l"] + ("(%s)" % n if n else "")
    for e in p["proj"]:
        if e == "deref":
            s = "(*%s)" % s
        elif "field" in e:
            s += ".%s" % (e.get("name") or e["field"])
        elif "index" in e:
            s += "[_%d]" % e["index"]
        elif "downcast" in e:
            s = "(%s as %s)" % (s, e["downcast"])
        else:
            s += "?"
    return s


def rv_s(m, rv):
    k = rv["k"]
    if k == "use":
        return op_s(m, rv["op"])
    if k == "ref":
        return ("&mut " if rv["mut"] else "&") + pl_s(m, rv["p"])
    if k == "binop":
        return "%s(%s, %s)" % (rv["op"], op_s(m, rv["l"]), op_s(m, rv["r"]))
    if k == "unop":
        return "%s(%s)" % (rv["op"], op_s(m, rv["x"]))
    if k == "cast":
        return "%s as %s [%s]" % (op_s(m, rv["op"]), rv["ty"], rv["ck"])
    if k == "aggregate":
        return "%s{%s}" % (rv.get("adt", rv["ak"]) + ("::" + rv["variant"] if "variant" in rv else ""),
                           ", ".join(op_s(m, o) for o in rv["ops"]))
    if k == "discr":
        return "discr(%s)" % pl_s(m, rv["p"])
    return "?%s %s" % (k, rv.get("dbg", ""))


def show(fn, calls_only=False):
    m = fn.mir
    print("fn %s  (%s:%d) args=%d blocks=%d" % (fn.path, fn.file, fn.line, m.arg_count, m.n))
    for i, l in enumerate(m.locals):
        if l.get("name") or i <= m.arg_count:
            print("   _%d %s: %s" % (i, l.get("name"), l["ty_str"]))
    for i, b in enumerate(m.blocks):
        if b["cleanup"]:
            continue
        t = b["term"]
        if calls_only and t["k"] != "call":
            continue
        print("bb%d:" % i)
        if not calls_only:
            for s in b["stmts"]:
                if s["k"] == "assign":
                    print("    %s = %s   // L%d" % (pl_s(m, s["p"]), rv_s(m, s["rv"]), s["line"]))
                else:
                    print("    %s" % json.dumps(s)[:120])
        k = t["k"]
        if k == "call":
            print("    %s = %s(%s) -> bb%s   // L%d %s" % (pl_s(m, t["dest"]), op_s(m, t["func"]),
                                                         ", ".join(op_s(m, a) for a in t["args"]), t["target"], t["line"],
                                                         "[exp]" if t.get("exp") else ""))
            c = m.callee(t)
            if c and c.get("resolved"):
                print("        resolved: %s" % c["resolved"])
        elif k == "switch":
            print("    switch %s [%s] -> %s otherwise bb%d" % (op_s(m, t["discr"]), ",".join(t["values"]),
                                                             ",".join("bb%d" % x for x in t["targets"]), t["otherwise"]))
        elif k == "goto":
            print("    goto bb%d" % t["target"])
        elif k == "drop":
            print("    drop(%s) -> bb%d" % (pl_s(m, t["p"]), t["target"]))
        elif k == "assert":
            print("    assert(%s == %s) -> bb%d" % (op_s(m, t["cond"]), t["expected"], t["target"]))
        else:
            print("    %s" % k)


def main():
    cfg = sys.argv[1]
    suffix = sys.argv[2]
    root = "/repo"
    if "--root" in sys.argv:
        root = sys.argv[sys.argv.index("--root") + 1]
    prog = Program(runner.get_facts(cfg, root))
    fs = prog.find(suffix) or [f for f in prog.fn_list if suffix in f.path]
    for f in fs:
        if "--hir" in sys.argv:
            print(json.dumps(f.hir, indent=1)[:20000])
        else:
            show(f, "--calls" in sys.argv)


if __name__ == "__main__":
    main()
