"""Run the simlint driver on /repo (or another source root) and load the fact file.

Facts are produced by `cargo +nightly check` with RUSTC_WORKSPACE_WRAPPER=simlint in a
fresh target directory (cargo's freshness cache would otherwise skip the wrapper).  A
content-addressed cache (key = sha256 of every file cargo reads from the source root +
the driver binary + the configuration) avoids re-running the driver when *nothing*
changed; any edit to the tree changes the key and forces a new analysis.
"""
import fcntl
import hashlib
import json
import os
import shutil
import subprocess
import sys
import tempfile
import time

VERIF = os.path.dirname(os.path.dirname(os.path.abspath(__file__)))
DRIVER = os.path.join(VERIF, "simlint", "target", "release", "simlint")
CACHE = os.path.join(VERIF, ".cache")

# feature configurations
CONFIGS = {
    "all": ["--all-features"],
    "default": [],
    "nodefault": ["--no-default-features"],
    "bytes": ["--no-default-features", "--features", "bytes"],
    "unicode": ["--no-default-features", "--features", "text,unicode"],
    "inline": ["--no-default-features", "--features", "text,inline"],
    "bis": ["--no-default-features", "--features", "text,bytes,inline,serde"],
}
QUICK = ["all", "default"]
THOROUGH = ["all", "default", "nodefault", "bytes", "unicode", "inline", "bis"]


class ToolError(Exception):
    pass


def _sysroot():
    return subprocess.check_output(["rustc", "+nightly", "--print", "sysroot"], text=True).strip()


def tree_hash(root):
    h = hashlib.sha256()
    paths = []
    for base in ("src", "build.rs", "Cargo.toml", "Cargo.lock", ".cargo"):
        p = os.path.join(root, base)
        if os.path.isdir(p):
            for dp, dn, fn in os.walk(p):
                dn.sort()
                for f in sorted(fn):
                    paths.append(os.path.join(dp, f))
        elif os.path.isfile(p):
            paths.append(p)
    for p in paths:
        h.update(os.path.relpath(p, root).encode())
        h.update(b"\0")
        with open(p, "rb") as fh:
            h.update(fh.read())
        h.update(b"\0")
    return h.hexdigest()


def driver_hash():
    if not os.path.isfile(DRIVER):
        raise ToolError("driver binary missing: %s (run MANIFEST.setup_cmd)" % DRIVER)
    with open(DRIVER, "rb") as fh:
        return hashlib.sha256(fh.read()).hexdigest()


def _forget_members(tgt, names):
    """Make cargo re-run the wrapper for the workspace members (dependencies stay compiled)."""
    import glob
    for n in names:
        n = n.replace("-", "_")
        for pat in ("debug/.fingerprint/%s-*" % n, "debug/.fingerprint/%s-*" % n.replace("_", "-"),
                    "debug/deps/lib%s-*" % n, "debug/deps/%s-*" % n, "debug/incremental/%s-*" % n):
            for p in glob.glob(os.path.join(tgt, pat)):
                if os.path.isdir(p):
                    shutil.rmtree(p, ignore_errors=True)
                else:
                    try:
                        os.remove(p)
                    except OSError:
                        pass


def run_driver(root, cargo_args, crates="similar", wrapper_all=False, timeout=600, tag="x"):
    """Returns dict crate->facts (parsed JSON).

    The target directory is kept per configuration so that dependencies are compiled once; the
    fingerprints of the analysed crates are deleted before every run, which forces cargo to invoke
    the wrapper again (and the presence of the fresh fact file is asserted)."""
    os.makedirs(CACHE, exist_ok=True)
    tmp = tempfile.mkdtemp(prefix="run-", dir=CACHE)
    tgt = os.path.join(CACHE, "target-%s" % tag)
    os.makedirs(tgt, exist_ok=True)
    _forget_members(tgt, ["similar"] + crates.split(","))
    out = os.path.join(tmp, "out")
    os.makedirs(out)
    env = dict(os.environ)
    env["LD_LIBRARY_PATH"] = _sysroot() + "/lib" + (":" + env["LD_LIBRARY_PATH"] if env.get("LD_LIBRARY_PATH") else "")
    env["RUSTFLAGS"] = "-Zmir-opt-level=0 -Awarnings"
    env["RUSTC_WRAPPER" if wrapper_all else "RUSTC_WORKSPACE_WRAPPER"] = DRIVER
    env["SIMLINT_OUT_DIR"] = out
    env["SIMLINT_CRATES"] = crates
    env["CARGO_TARGET_DIR"] = tgt
    env["CARGO_NET_OFFLINE"] = "true"
    env.pop("RUSTC_WRAPPER" if not wrapper_all else "RUSTC_WORKSPACE_WRAPPER", None)
    cmd = ["cargo", "+nightly", "check", "--offline", "--lib", "-j", "8"] + list(cargo_args)
    try:
        p = subprocess.run(cmd, cwd=root, env=env, stdout=subprocess.PIPE, stderr=subprocess.STDOUT,
                           text=True, timeout=timeout)
        if p.returncode != 0:
            raise ToolError("cargo check failed in %s (%s):\n%s" % (root, " ".join(cargo_args), p.stdout[-4000:]))
        res = {}
        for c in crates.split(","):
            fp = os.path.join(out, c + ".json")
            if not os.path.isfile(fp):
                raise ToolError("fact file for crate %s was not produced (driver skipped?)" % c)
            with open(fp) as fh:
                res[c] = json.load(fh)
        return res
    finally:
        shutil.rmtree(tmp, ignore_errors=True)


def get_facts(config, root="/repo", use_cache=True):
    """Facts of crate `similar` at `root` for a named feature configuration."""
    args = CONFIGS[config]
    key = hashlib.sha256((tree_hash(root) + driver_hash() + config + "v2").encode()).hexdigest()[:32]
    os.makedirs(CACHE, exist_ok=True)
    cpath = os.path.join(CACHE, "facts-%s.json" % key)
    lock = open(os.path.join(CACHE, "lock-%s" % config), "w")
    fcntl.flock(lock, fcntl.LOCK_EX)
    try:
        if use_cache and os.path.isfile(cpath):
            try:
                with open(cpath) as fh:
                    d = json.load(fh)
                os.utime(cpath, None)
                d["_cache"] = "hit"
                return d
            except Exception:
                pass
        t0 = time.time()
        d = run_driver(root, args, tag=config)["similar"]
        d["_driver_s"] = round(time.time() - t0, 2)
        d["_config"] = config
        tmpf = cpath + ".tmp%d" % os.getpid()
        with open(tmpf, "w") as fh:
            json.dump(d, fh)
        os.replace(tmpf, cpath)
        _prune()
        d["_cache"] = "miss"
        return d
    finally:
        fcntl.flock(lock, fcntl.LOCK_UN)
        lock.close()


def _prune(keep=40):
    try:
        fs = [os.path.join(CACHE, f) for f in os.listdir(CACHE) if f.startswith("facts-") and f.endswith(".json")]
        fs.sort(key=lambda p: os.path.getmtime(p), reverse=True)
        for p in fs[keep:]:
            os.remove(p)
    except OSError:
        pass


def get_fixture_facts(root="/repo"):
    """Facts of the positive-control crate (/verif/fixtures), which path-depends on `root`."""
    fx = os.path.join(VERIF, "fixtures")
    key = hashlib.sha256((tree_hash(root) + tree_hash(fx) + driver_hash() + "fx-v1").encode()).hexdigest()[:32]
    os.makedirs(CACHE, exist_ok=True)
    cpath = os.path.join(CACHE, "facts-%s.json" % key)
    lock = open(os.path.join(CACHE, "lock-fixtures"), "w")
    fcntl.flock(lock, fcntl.LOCK_EX)
    try:
        if os.path.isfile(cpath):
            try:
                with open(cpath) as fh:
                    return json.load(fh)
            except Exception:
                pass
        # the fixture crate needs a lock file consistent with the repo's
        work = tempfile.mkdtemp(prefix="fx-", dir=CACHE)
        try:
            shutil.copytree(fx, os.path.join(work, "fixtures"), ignore=shutil.ignore_patterns("target"))
            fxw = os.path.join(work, "fixtures")
            with open(os.path.join(fxw, "Cargo.toml")) as fh:
                ct = fh.read()
            ct = ct.replace("@REPO@", root)
            with open(os.path.join(fxw, "Cargo.toml"), "w") as fh:
                fh.write(ct)
            if os.path.isfile(os.path.join(root, "Cargo.lock")):
                shutil.copy(os.path.join(root, "Cargo.lock"), os.path.join(fxw, "Cargo.lock"))
            d = run_driver(fxw, [], crates="simfix", wrapper_all=True, tag="fixtures")["simfix"]
        finally:
            shutil.rmtree(work, ignore_errors=True)
        tmpf = cpath + ".tmp%d" % os.getpid()
        with open(tmpf, "w") as fh:
            json.dump(d, fh)
        os.replace(tmpf, cpath)
        return d
    finally:
        fcntl.flock(lock, fcntl.LOCK_UN)
        lock.close()


def src_digest(root="/repo"):
    """sha256 over the crate's sources and manifest: tells the pinned tree (for which the instance floors were counted)
    from a modified one."""
    import hashlib
    h = hashlib.sha256()
    files = []
    for base, dirs, fs in os.walk(os.path.join(root, "src")):
        dirs.sort()
        for f in sorted(fs):
            if f.endswith(".rs"):
                files.append(os.path.join(base, f))
    files.append(os.path.join(root, "Cargo.toml"))
    for f in sorted(files):
        try:
            with open(f, "rb") as fh:
                h.update(os.path.relpath(f, root).encode() + b"\0" + fh.read() + b"\0")
        except OSError:
            pass
    return h.hexdigest()
