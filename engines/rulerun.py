"""Developer tool: run rules on a tree and print instances / findings / samples.
usage: python3 -m engines.rulerun <cfg> <RULE[,RULE]> [--root DIR] [-v]"""
import sys
from . import runner
from .facts import Program
from .registry import RULES

def main():
    cfg, rids = sys.argv[1], sys.argv[2].split(",")
    root = sys.argv[sys.argv.index("--root") + 1] if "--root" in sys.argv else "/repo"
    prog = Program(runner.get_facts(cfg, root))
    for rid in rids:
        fn = RULES[rid]
        res = fn(prog, {"tier": "quick"}) if getattr(fn, "wants_opts", False) else fn(prog)
        print(rid, "instances", res.instances, "obligations", res.obligations, "discharged", res.discharged, "findings", len(res.findings))
        for f in res.findings:
            print("  FINDING", f.key, "|", f.msg[:300])
        if "-v" in sys.argv:
            for s in res.samples[:60]:
                print("   ", s[:260])
            for n in res.notes:
                print("  note", n)
main()
