"""Engine G: order-changing operations on lists of DiffOp (MIR).

An op's carried positions are a function of its place in the list, so any call that permutes a
`[DiffOp]` must be followed -- on every path to the next loop back-edge or return -- by a rewrite of the
affected elements.  A swap of an adjacent Delete/Insert without rewrite leaves the Insert's old index and
the Delete's new index stale, which is a C11 violation for every input that reaches the swap.
"""
from .core import RuleResult
from .facts import const_int

DIFFOP = "types::DiffOp"

MUTATORS = ("std::ops::IndexMut::index_mut", "std::vec::Vec::<T, A>::insert", "std::vec::Vec::<T, A>::remove",
            "std::vec::Vec::<T, A>::push", "core::slice::<impl [T]>::swap", "std::vec::Vec::<T, A>::swap_remove",
            "core::slice::<impl [T]>::get_mut", "std::vec::Vec::<T, A>::truncate", "std::vec::Vec::<T, A>::clear")

ORDER_CALLEES = {
    "core::slice::<impl [T]>::swap": "slice::swap",
    "core::slice::<impl [T]>::reverse": "slice::reverse",
    "core::slice::<impl [T]>::rotate_left": "slice::rotate_left",
    "core::slice::<impl [T]>::rotate_right": "slice::rotate_right",
    "core::slice::<impl [T]>::swap_with_slice": "slice::swap_with_slice",
    "core::slice::<impl [T]>::select_nth_unstable": "slice::select_nth_unstable",
    "core::slice::<impl [T]>::select_nth_unstable_by": "slice::select_nth_unstable_by",
    "core::slice::<impl [T]>::select_nth_unstable_by_key": "slice::select_nth_unstable_by_key",
    "core::slice::<impl [T]>::sort_unstable": "slice::sort_unstable",
    "core::slice::<impl [T]>::sort_unstable_by": "slice::sort_unstable_by",
    "core::slice::<impl [T]>::sort_unstable_by_key": "slice::sort_unstable_by_key",
    "std::slice::<impl [T]>::sort": "slice::sort",
    "std::slice::<impl [T]>::sort_by": "slice::sort_by",
    "std::slice::<impl [T]>::sort_by_key": "slice::sort_by_key",
    "std::slice::<impl [T]>::sort_by_cached_key": "slice::sort_by_cached_key",
    "alloc::slice::<impl [T]>::sort": "slice::sort",
    "alloc::slice::<impl [T]>::sort_by": "slice::sort_by",
    "alloc::slice::<impl [T]>::sort_by_key": "slice::sort_by_key",
    "std::vec::Vec::<T, A>::swap_remove": "Vec::swap_remove",
    "std::mem::swap": "mem::swap",
    "std::ptr::swap": "ptr::swap",
}

REWRITE_CALLEES = (
    "std::ops::IndexMut::index_mut",
    "core::slice::<impl [T]>::get_mut",
    "core::slice::<impl [T]>::split_at_mut",
    "core::slice::<impl [T]>::iter_mut",
    "core::slice::<impl [T]>::first_mut",
    "core::slice::<impl [T]>::last_mut",
)


def _mentions_diffop(tyj):
    if isinstance(tyj, dict):
        if tyj.get("k") == "adt" and tyj.get("path") == DIFFOP:
            return True
        return any(_mentions_diffop(v) for v in tyj.values())
    if isinstance(tyj, list):
        return any(_mentions_diffop(v) for v in tyj)
    return False


def order_sites(prog):
    """All calls that permute DiffOp elements: [(fn, bb, term, short name)]."""
    out = []
    for fn in prog.user_fns():
        if not fn.mir:
            continue
        for bb, t in fn.mir.calls():
            c = fn.mir.callee(t)
            if not c:
                continue
            short = ORDER_CALLEES.get(c["path"])
            if short and _mentions_diffop(c["args"]):
                out.append((fn, bb, t, short))
    return out


def _min_rewrites_after(mir, bb):
    """Minimum number of element-rewrite events on any path from the successor of `bb` to a loop
    back-edge or return (paths are cut at back edges)."""
    back = set(mir.back_edges())
    INF = 10 ** 6
    memo = {}

    def events(b):
        t = mir.blocks[b]["term"]
        n = 0
        if t["k"] == "call":
            c = mir.callee(t)
            if c and c["path"] in REWRITE_CALLEES and _mentions_diffop(c["args"]):
                n = 1
        # whole-element store through an index projection: ops[i] = ...
        for s in mir.blocks[b]["stmts"]:
            if s["k"] == "assign" and any(isinstance(e, dict) and "index" in e for e in s["p"]["proj"]):
                n += 1
        return n

    def go(b, stack):
        if b in memo:
            return memo[b]
        if b in stack:
            return INF
        t = mir.blocks[b]["term"]
        e = events(b)
        if t["k"] == "return":
            memo[b] = e
            return e
        best = INF
        succs = mir.succs(b)
        if not succs:
            best = INF  # diverges (panic): no obligation
        for s in succs:
            if (b, s) in back:
                best = min(best, 0)
            else:
                best = min(best, go(s, stack | {b}))
        r = e + best if best < INF else INF
        memo[b] = r
        return r

    t = mir.blocks[bb]["term"]
    if t["target"] is None:
        return INF
    return go(t["target"], frozenset([bb]))


def rule_G1(prog):
    r = RuleResult("G1", "every order-changing call on a [DiffOp] is followed, on every path to the next loop "
                         "back-edge or return, by a rewrite of both affected elements (carried indices are "
                         "position-dependent)")
    for fn, bb, t, short in order_sites(prog):
        r.instances += 1
        n = _min_rewrites_after(fn.mir, bb)
        ok = n >= 2
        r.ob(ok, "%s: %s at %s:%d -> min element rewrites on a path to back-edge/return = %s" % (
            fn.path, short, fn.file, t["line"], n if n < 10 ** 6 else "inf"))
        if not ok:
            r.find(fn.path, short,
                   "%s permutes DiffOp elements (%s) and %d element rewrite(s) follow on some path: the carried "
                   "new_index of a Delete / old_index of an Insert stays stale" % (short, t.get("src", ""), n),
                   file=fn.file, line=t["line"], extra={"callee": short, "min_rewrites": n, "src": t.get("src")})
    return r


def carried_index_consumers(prog):
    """Functions outside types.rs / compact.rs that read both range starts of ops of unknown tag
    (e.g. UnifiedHunkHeader::new): they observe a carried index."""
    out = []
    for fn in prog.user_fns():
        if not fn.mir or fn.module in ("types", "algorithms::compact"):
            continue
        names = set()
        for bb, t in fn.mir.calls():
            c = fn.mir.callee(t)
            if c and c["path"] in ("types::DiffOp::old_range", "types::DiffOp::new_range", "types::DiffOp::as_tag_tuple"):
                names.add(c["path"].rsplit("::", 1)[-1])
        if names:
            out.append((fn, sorted(names)))
    return out


def rule_G2(prog):
    """Consumers of carried indices, reported only while unrepaired G1 sites exist (C05)."""
    r = RuleResult("G2", "a consumer that derives output from the range starts of the first/last op of a group "
                         "(unified-diff hunk header) sees true coordinates only if no unrepaired order-changing "
                         "site exists")
    g1 = rule_G1(prog)
    cons = [(fn, names) for fn, names in carried_index_consumers(prog) if fn.module == "udiff"]
    r.instances = len(cons)
    for fn, names in cons:
        ok = not g1.findings
        r.ob(ok, "%s reads %s of ops; unrepaired order-changing sites: %d" % (fn.path, "/".join(names), len(g1.findings)))
        if not ok:
            for f in g1.findings:
                r.find(fn.path, "stale-via:" + f.fn + ":" + f.detail,
                       "%s computes hunk extents from the carried index of the first/last op while %s (%s) leaves "
                       "carried indices stale" % (fn.path, f.fn, f.detail), file=fn.file, line=fn.line)
    return r


# ------------------------------------------------------------------ G3: conservation on removal
def _lin_idx(m, term):
    from .cursor import lin, norm
    return norm(lin(m, term))


def _elem_index_of(m, term, depth=0):
    """If `term` is (a copy of) an element of an op list, return the linear form of its index, else None.
    Recognises ops[i], *ops.get(i), and the while-let header `i.checked_sub(1).and_then(|x| ops.get(x))`."""
    from .guard import strip
    t = strip(term)
    if not isinstance(t, tuple) or depth > 10:
        return None
    if t[0] in ("field", "downcast", "deref"):
        return _elem_index_of(m, t[1], depth + 1)
    if t[0] == "call":
        p = t[1]
        if p.endswith("Index::index") or p.endswith("IndexMut::index_mut") or p.endswith("<impl [T]>::get") or p.endswith("<impl [T]>::get_mut"):
            return _lin_idx(m, t[2][1]) if len(t[2]) > 1 else None
        if p.endswith("Option::<T>::and_then") and t[2]:
            inner = strip(t[2][0])
            if isinstance(inner, tuple) and inner and inner[0] == "call" and len(inner[2]) == 2:
                base = _lin_idx(m, inner[2][0])
                k = inner[2][1]
                if isinstance(k, tuple) and k[0] == "const" and isinstance(k[1], int):
                    if inner[1].endswith("checked_sub"):
                        base["#"] = base.get("#", 0) - k[1]
                        return {a: b for a, b in base.items() if b}
                    if inner[1].endswith("checked_add"):
                        base["#"] = base.get("#", 0) + k[1]
                        return {a: b for a, b in base.items() if b}
            return None
        if p.endswith(("Option::<T>::map", "Option::<T>::copied", "Option::<T>::unwrap", "Option::<T>::filter", "Option::<T>::as_mut",
                       "Option::<T>::as_ref", "Option::<T>::as_deref_mut", "Option::<T>::cloned", "Option::<T>::expect")):
            return _elem_index_of(m, t[2][0], depth + 1) if t[2] else None
    if t[0] == "local" and isinstance(t[2], int) and t[2] > m.arg_count:
        e = m.expand(t, depth=1)
        if e != t:
            return _elem_index_of(m, e, depth + 1)
    return None


def _def_term(m, d):
    bb, idx, kind, payload = d
    if kind == "call":
        cal = m.callee(payload)
        return ("call", cal["path"] if cal else "?", [m.resolve_operand(a) for a in payload["args"]], cal, bb)
    return m.resolve_rvalue(payload)


def _alternatives(m, term, depth=0):
    """The values a term may stand for when it is a local assigned in several branches (each definition resolved)."""
    l = None
    if isinstance(term, tuple) and term and term[0] == "local" and isinstance(term[2], int) and term[2] > m.arg_count:
        l = term[2]
    elif isinstance(term, tuple) and term and term[0] == "temp":
        l = term[1]
    if l is not None and depth < 3:
        ds = m.defs().get(l, [])
        if len(ds) > 1:
            out = []
            for d in ds:
                out += _alternatives(m, _def_term(m, d), depth + 1)
            return out
        if len(ds) == 1:
            inner = _def_term(m, ds[0])
            if isinstance(inner, tuple) and inner and inner[0] in ("local", "temp"):
                return _alternatives(m, inner, depth + 1)
    return [term]


def rule_G3(prog):
    r = RuleResult("G3", "conservation on removal: every `ops.remove(i)` on a list of DiffOp either removes an op shown "
                         "empty (`ops[i].is_empty()` on the dominating branch) or is preceded, in the same arm, by a "
                         "grow_right/grow_left of a neighbour whose amount is the range length of that very op `ops[i]` "
                         "(the merged op takes over exactly the removed items)")
    from .facts import term_str
    from .guard import strip
    for fn in prog.user_fns():
        if not fn.mir:
            continue
        m = fn.mir
        for bb, t in m.calls():
            c = m.callee(t)
            if not c or c["path"] != "std::vec::Vec::<T, A>::remove" or not _mentions_diffop(c["args"]):
                continue
            r.instances += 1
            idx = _lin_idx(m, m.resolve_operand(t["args"][1]))
            verdict = None
            # (a) guarded by is_empty of the same element
            for b2, t2 in m.calls():
                c2 = m.callee(t2)
                if c2 and c2["path"] == "types::DiffOp::is_empty" and m.dominates(b2, bb) and b2 != bb:
                    ei = _elem_index_of(m, m.resolve_operand(t2["args"][0]))
                    if ei == idx:
                        # the remove must be on the true edge
                        sw = m.blocks[t2["target"]]["term"] if t2["target"] is not None else None
                        if sw and sw["k"] == "switch":
                            true_t = sw["otherwise"] if sw["values"] == ["0"] else None
                            if true_t is not None and (true_t == bb or m.dominates(true_t, bb)):
                                verdict = "guarded by ops[%s].is_empty()" % _fmt_idx(idx)
            # (b) merge: a grow of a neighbour by the removed op's length
            if verdict is None:
                for b2, t2 in m.calls():
                    c2 = m.callee(t2)
                    if not c2 or c2["path"] not in ("types::DiffOp::grow_right", "types::DiffOp::grow_left"):
                        continue
                    if not (m.dominates(b2, bb) and b2 != bb):
                        continue
                    if any(h in m.reach_from([t2["target"]]) and m.dominates(h, bb) and h != bb and not m.dominates(h, b2)
                           for h, _ in m.loops()):
                        continue
                    # the amount, or every alternative of it when it is chosen by an `if` (`let n = if .. {a} else {b}`)
                    srcs = []
                    for amt in _alternatives(m, m.resolve_operand(t2["args"][1])):
                        amt = strip(m.expand(amt, depth=3))
                        one = None
                        if isinstance(amt, tuple) and amt and amt[0] == "call" and amt[1].endswith("ExactSizeIterator::len"):
                            rng = strip(amt[2][0])
                            if isinstance(rng, tuple) and rng and rng[0] == "call" and rng[1] in ("types::DiffOp::new_range", "types::DiffOp::old_range"):
                                one = _elem_index_of(m, rng[2][0])
                        srcs.append(one)
                    src = srcs[0] if srcs and all(x is not None and x == srcs[0] for x in srcs) else None
                    target = _elem_index_of(m, m.resolve_operand(t2["args"][0]))
                    if src is not None and src == idx and target != idx:
                        verdict = "merged into ops[%s] by %s(len of ops[%s])" % (_fmt_idx(target or {}), c2["path"].rsplit("::", 1)[-1], _fmt_idx(src))
                        break
                    elif src is not None:
                        verdict = None
                        bad = "neighbour grows by the length of ops[%s], but ops[%s] is removed" % (_fmt_idx(src), _fmt_idx(idx))
                        r.ob(False, "%s: `%s` line %d: %s" % (fn.path, t.get("src", ""), t["line"], bad))
                        r.find(fn.path, "merge-amount:%s" % _fmt_idx(idx),
                               "`%s` removes ops[%s] after `%s` grew its neighbour by the length of ops[%s]: the merged op does "
                               "not take over exactly the removed items" % (t.get("src", ""), _fmt_idx(idx), t2.get("src", ""), _fmt_idx(src)),
                               file=fn.file, line=t["line"])
                        verdict = "BAD"
                        break
            if verdict == "BAD":
                continue
            r.ob(verdict is not None, "%s: `%s` line %d: %s" % (fn.path, t.get("src", ""), t["line"], verdict or "UNJUSTIFIED"))
            if verdict is None:
                r.find(fn.path, "unjustified-remove:%s" % _fmt_idx(idx),
                       "`%s` removes ops[%s], which is neither shown empty nor merged into a neighbour (its items vanish "
                       "from the script)" % (t.get("src", ""), _fmt_idx(idx)), file=fn.file, line=t["line"])
    return r


def _fmt_idx(d):
    if not d:
        return "0"
    parts = []
    for k, v in sorted(d.items(), key=lambda kv: (kv[0] == "#", kv[0])):
        if k == "#":
            parts.append("%+d" % v)
        else:
            parts.append(k if v == 1 else "%d*%s" % (v, k))
    return "".join(parts)


# ------------------------------------------------------------------ G5: stale snapshot
def rule_G5(prog):
    r = RuleResult("G5", "no stale snapshot: a DiffOp copied out of an op list before a loop is not read inside that loop "
                         "if the loop mutates the list (the copy no longer describes ops[i] after a shift/grow/insert)")
    from .facts import term_str
    for fn in prog.user_fns():
        if not fn.mir:
            continue
        m = fn.mir
        loops = m.loops()
        if not loops:
            continue
        snaps = {}
        for l, decl in enumerate(m.locals):
            if l <= m.arg_count or not decl.get("name"):
                continue
            if not (isinstance(decl["ty"], dict) and decl["ty"].get("k") == "adt" and decl["ty"].get("path") == DIFFOP):
                continue
            defs = m.defs().get(l, [])
            if not defs:
                continue
            idxs = []
            for d in defs:
                if d[2] != "assign":
                    idxs = None
                    break
                e = _elem_index_of(m, m.resolve_rvalue(d[3]))
                if e is None:
                    idxs = None
                    break
                idxs.append((d[0], e))
            if idxs:
                snaps[l] = idxs
        if not snaps:
            continue
        for h, body in loops:
            mut = [b for b in body if m.blocks[b]["term"]["k"] == "call" and (m.callee(m.blocks[b]["term"]) or {}).get("path") in MUTATORS
                   and _mentions_diffop((m.callee(m.blocks[b]["term"]) or {}).get("args", []))]
            # helper methods taking &mut DiffOp obtained from index_mut are covered by the index_mut call itself
            if not mut:
                continue
            for l, idxs in snaps.items():
                r.instances += 1
                def_blocks = [b for b, _ in idxs]
                if any(b in body for b in def_blocks):
                    r.ob(True, "%s: %s is re-read from the list inside the loop at bb%d" % (fn.path, m.local_name(l), h))
                    continue
                from .cursor import _rv_locals, _op_locals
                reads = []
                for b in body:
                    for s_ in m.blocks[b]["stmts"]:
                        if s_["k"] == "assign" and l in _rv_locals(s_["rv"]):
                            reads.append(s_["line"])
                    t = m.blocks[b]["term"]
                    if t["k"] == "call":
                        for a in t["args"]:
                            if l in _op_locals(a):
                                reads.append(t["line"])
                ok = not reads
                r.ob(ok, "%s: snapshot %s (taken outside the loop at bb%d) read inside the mutating loop: %s" % (
                    fn.path, m.local_name(l), h, reads or "no"))
                if reads:
                    r.find(fn.path, "stale-snapshot:%s" % m.local_name(l),
                           "`%s` is copied from the op list before the loop but read inside it (line %d) although the loop "
                           "mutates the list: after the first shift/grow/insert the copy is stale" % (m.local_name(l), reads[0]),
                           file=fn.file, line=reads[0])
    return r


# ------------------------------------------------------------------ G6: shrinking is followed by an emptiness check
def _empty_check_blocks(m, idx):
    """Blocks that test `ops[idx].is_empty()` and remove ops[idx] on the true edge."""
    good = set()
    for b2, t2 in m.calls():
        c2 = m.callee(t2)
        if c2 and c2["path"] == "types::DiffOp::is_empty" and _elem_index_of(m, m.resolve_operand(t2["args"][0])) == idx:
            sw = m.blocks[t2["target"]]["term"] if t2["target"] is not None else None
            true_t = None
            if sw and sw["k"] == "switch" and sw["values"] == ["0"]:
                true_t = sw["otherwise"]
            elif sw and sw["k"] == "goto":
                # `let empty = ops[i].is_empty(); if empty { .. }`: the flag is tested by a later switch
                dest = t2["dest"]["l"] if not t2["dest"]["proj"] else None
                for b4, blk in enumerate(m.blocks):
                    tt = blk["term"]
                    if tt["k"] == "switch" and tt["values"] == ["0"] and m.dominates(b2, b4):
                        d = tt.get("discr") or {}
                        if d.get("k") in ("copy", "move") and not d["p"]["proj"]:
                            src = m.resolve_operand(d)
                            if d["p"]["l"] == dest or (isinstance(src, tuple) and src[0] == "local" and src[2] == dest) or \
                                    (isinstance(src, tuple) and src[0] == "call" and len(src) > 4 and src[4] == b2):
                                true_t = tt["otherwise"]
                                break
            if true_t is not None:
                removes = [b3 for b3, t3 in m.calls() if (m.callee(t3) or {}).get("path") == "std::vec::Vec::<T, A>::remove" and
                           (b3 == true_t or m.dominates(true_t, b3)) and _lin_idx(m, m.resolve_operand(t3["args"][1])) == idx]
                if removes:
                    good.add(b2)
    return good


_RIE_MEMO = {}


def _remove_if_empty_helpers(prog):
    """Local functions `f(ops: &mut Vec<DiffOp>, i: usize)` that test ops[i].is_empty() and remove ops[i] when it holds."""
    key = id(prog)
    if key in _RIE_MEMO:
        return _RIE_MEMO[key]
    out = set()
    for g in prog.user_fns():
        m = g.mir
        if not m or m.arg_count != 2 or m.locals[2]["ty_str"] != "usize":
            continue
        nm = m.local_name(2)
        if not nm:
            continue
        from .facts import term_str
        idx = {term_str(("local", nm, 2)): 1}
        if _empty_check_blocks(m, idx):
            out.add(g.path)
    _RIE_MEMO.clear()
    _RIE_MEMO[key] = out
    return out


def rule_G6(prog):
    r = RuleResult("G6", "compaction never leaves an empty op behind: after `ops[j].shrink_left/shrink_right(..)` every path to the "
                         "next loop back-edge or return passes an `ops[j].is_empty()` test whose true branch removes ops[j]")
    for fn in prog.user_fns():
        if not fn.mir:
            continue
        m = fn.mir
        back = set(m.back_edges())
        for bb, t in m.calls():
            c = m.callee(t)
            if not c or c["path"] not in ("types::DiffOp::shrink_left", "types::DiffOp::shrink_right"):
                continue
            r.instances += 1
            idx = _elem_index_of(m, m.resolve_operand(t["args"][0]))
            # blocks that test is_empty on the same element and remove it on the true edge (directly or in a helper)
            good = _empty_check_blocks(m, idx)
            for b2, t2 in m.calls():
                g = prog.fn((m.callee(t2) or {}).get("path", ""))
                if g is not None and g.path in _remove_if_empty_helpers(prog) and len(t2["args"]) == 2 and \
                        _lin_idx(m, m.resolve_operand(t2["args"][1])) == idx:
                    good.add(b2)
            # every path from the shrink to a back edge / return passes a good block
            seen = set()
            stack = [t["target"]] if t["target"] is not None else []
            escaped = None
            while stack:
                b = stack.pop()
                if b in seen or m.blocks[b]["cleanup"]:
                    continue
                seen.add(b)
                if b in good:
                    continue
                tt = m.blocks[b]["term"]
                if tt["k"] == "return":
                    escaped = b
                    break
                for s_ in m.succs(b):
                    if (b, s_) in back:
                        escaped = b
                        break
                    stack.append(s_)
                if escaped is not None:
                    break
            ok = escaped is None
            r.ob(ok, "%s: `%s` line %d: emptiness of ops[%s] checked (and removed) on every path: %s" % (
                fn.path, t.get("src", ""), t["line"], _fmt_idx(idx or {}), ok))
            if not ok:
                r.find(fn.path, "shrink-unchecked:%s" % _fmt_idx(idx or {}),
                       "after `%s` a path reaches the end of the iteration without testing `ops[%s].is_empty()` and removing it: a "
                       "zero-length op may stay in the script" % (t.get("src", ""), _fmt_idx(idx or {})), file=fn.file, line=t["line"])
    return r


# ------------------------------------------------------------------ G7: only an Equal op absorbs equal items
_EQ_RE = None


def _mentions_equal(src):
    import re as _re
    return bool(_re.search(r"DiffTag::Equal\b", src or ""))


def _backward_calls(m, local, depth=8, seen=None, out=None):
    """Calls (block, terminator) in the backward slice of `local` (through assignments, aggregates and call arguments)."""
    seen = set() if seen is None else seen
    out = [] if out is None else out
    if local in seen or depth <= 0:
        return out
    seen.add(local)

    def op_locals(op):
        if op.get("k") in ("copy", "move"):
            return [op["p"]["l"]] + [e["index"] for e in op["p"]["proj"] if isinstance(e, dict) and "index" in e]
        return []
    for bb, i_, kind, payload in m.defs().get(local, []):
        if kind == "call":
            out.append((bb, payload))
            for a in payload["args"]:
                for l2 in op_locals(a):
                    _backward_calls(m, l2, depth - 1, seen, out)
        else:
            rv = payload
            k = rv["k"]
            ls = []
            if k in ("use", "cast", "repeat"):
                ls = op_locals(rv["op"])
            elif k == "unop":
                ls = op_locals(rv["x"])
            elif k == "binop":
                ls = op_locals(rv["l"]) + op_locals(rv["r"])
            elif k == "aggregate":
                for o in rv["ops"]:
                    ls += op_locals(o)
            elif k in ("ref", "discr", "rawptr"):
                ls = [rv["p"]["l"]] + [e["index"] for e in rv["p"]["proj"] if isinstance(e, dict) and "index" in e]
            for l2 in ls:
                _backward_calls(m, l2, depth - 1, seen, out)
    # stores into parts of the local (`_x.0 = ..`) are not definitions in m.defs(); fine for conditions
    return out


def _fn_tests_tag_equal(prog, g, want_idx_of_param=None):
    """Does the body of `g` (a closure or a small helper) read the tag of an op and compare it with DiffTag::Equal?
    With `want_idx_of_param` = (param local, idx linear form of the caller's argument, caller idx) the op must be
    ops[param + k] with the same offset k the caller's element has relative to the argument."""
    m = g.mir
    if m is None:
        return False
    tags = [(bb, t) for bb, t in m.calls() if (m.callee(t) or {}).get("path") == "types::DiffOp::tag"]
    if not tags:
        return False
    eq = any(_mentions_equal(t.get("src")) for _, t in m.calls()) 
    if not eq:
        # a `match op.tag() { DiffTag::Equal => true, _ => false }`: a switch on the tag's discriminant
        tag_adt = prog.adts.get("types::DiffTag")
        eq_idx = [str(i) for i, v in enumerate(tag_adt["variants"]) if v["name"] == "Equal"] if tag_adt else []
        for blk in m.blocks:
            t = blk["term"]
            if t["k"] == "switch" and (t.get("discr_ty") or "") == "isize" and eq_idx and eq_idx[0] in t["values"]:
                eq = True
    if not eq:
        return False
    if want_idx_of_param is None:
        return True
    from .facts import term_str
    plocal, arg_lin, idx = want_idx_of_param
    pname = m.local_name(plocal) or ("_%d" % plocal)
    pkey = term_str(("local", pname, plocal))
    for bb, t in tags:
        ei = _elem_index_of(m, m.resolve_operand(t["args"][0]))
        if ei is None:
            continue
        # ei is in terms of the helper's parameter; the caller's idx must be  arg + (ei - param)
        off = dict(ei)
        if off.get(pkey) != 1:
            continue
        off.pop(pkey)
        want = dict(arg_lin)
        for k, v in off.items():
            want[k] = want.get(k, 0) + v
        want = {k: v for k, v in want.items() if v}
        if want == idx:
            return True
    return False


def _tag_evidence(prog, m, idx, bb, depth=0):
    """Is the call block `bb` dominated by the taken edge of a condition that reads the tag of ops[idx] and compares it
    with DiffTag::Equal?  The condition may be an `if let Some(DiffTag::Equal) = ..get(idx).map(|x| x.tag())`, a boolean
    computed with `==`, `matches!`, `map_or`, a `match` producing an Option<DiffTag>, or a small helper
    (`follows_equal(ops, pointer)`): what counts is the backward slice of the switch's discriminant."""
    from .facts import term_str
    tag_adt = prog.adts.get("types::DiffTag")
    eq_idx = None
    if tag_adt:
        for i, v in enumerate(tag_adt["variants"]):
            if v["name"] == "Equal":
                eq_idx = str(i)
    for b2, blk in enumerate(m.blocks):
        t = blk["term"]
        if t["k"] != "switch":
            continue
        d = t["discr"]
        if d.get("k") not in ("copy", "move"):
            continue
        # which edges lead (exclusively) to the call?
        edges = [(v, tg) for v, tg in zip(t["values"], t["targets"])] + [("otherwise", t["otherwise"])]
        taken = [(v, tg) for v, tg in edges if tg == bb or m.dominates(tg, bb)]
        if not taken or len(taken) == len(edges):
            continue
        # `if matches!(ops.get(j), Some(op) if op.tag() == DiffTag::Equal) { .. }`: the switch reads a bool that is `true`
        # in exactly one block and `false` elsewhere -- the evidence is whatever guards the block that stores `true`
        if (t.get("discr_ty") or "") == "bool" and not d["p"]["proj"] and depth < 3:
            defs_ = m.defs().get(d["p"]["l"], [])
            consts = []
            for db, di, dk, dp in defs_:
                if dk == "assign" and dp["k"] == "use" and dp["op"].get("k") == "const":
                    consts.append((db, str(dp["op"].get("val"))))
            if len(consts) == len(defs_) and len(consts) >= 2:
                trues = [db for db, v in consts if v in ("true", "const true")]
                on_true = any(v == "otherwise" for v, _ in taken) and t["values"] == ["0"]
                if len(trues) == 1 and on_true and _tag_evidence(prog, m, idx, trues[0], depth + 1):
                    return True
        calls = _backward_calls(m, d["p"]["l"])
        # is the discriminant a DiffTag discriminant?  then the taken edge must be the Equal one
        sd = m.single_def(d["p"]["l"]) if not d["p"]["proj"] else None
        tag_switch = False
        if sd and sd[2] == "assign" and sd[3]["k"] == "discr":
            pl = sd[3]["p"]
            ty = m.local_ty_str(pl["l"]) or ""
            last_ty = None
            for e in pl["proj"]:
                if isinstance(e, dict) and "field" in e:
                    last_ty = e.get("ty")
            tstr = last_ty or ty
            if "DiffTag" in (tstr or "") and "Option" not in (tstr or ""):
                tag_switch = True
        equal_ok = False
        if tag_switch:
            equal_ok = any(v == eq_idx for v, _ in taken)
        elif (t.get("discr_ty") or "") == "bool":
            equal_ok = any(v == "otherwise" for v, _ in taken) and t["values"] == ["0"]
        elif sd and sd[2] == "assign" and sd[3]["k"] == "discr" and "Option<" in ((m.local_ty_str(sd[3]["p"]["l"]) or "") if not sd[3]["p"]["proj"] else ""):
            # `match ops.get_mut(j).filter(|op| op.tag() == DiffTag::Equal) { Some(next) => next.grow_left(..), None => .. }`:
            # the Some edge of an Option that a tag-testing `filter` produced
            equal_ok = any(v == "1" for v, _ in taken) or (any(v == "otherwise" for v, _ in taken) and t["values"] == ["0"])
        has_tag = False
        has_eq_text = tag_switch
        loops_of_bb = [body for h, body in m.loops() if bb in body]
        for cb, ct in calls:
            c = m.callee(ct) or {}
            path = c.get("path", "")
            if any(cb not in body for body in loops_of_bb):
                # read before the loop that contains the use: the op list and the index change inside the loop, so a tag
                # read outside of it says nothing about ops[idx] now (a hoisted `prev_is_equal` flag is stale)
                continue
            if _mentions_equal(ct.get("src")):
                has_eq_text = True
            if path == "types::DiffOp::tag" and ct["args"] and _elem_index_of(m, m.resolve_operand(ct["args"][0])) == idx:
                has_tag = True
            if path.endswith(("Option::<T>::map", "Option::<T>::map_or", "Option::<T>::is_some_and", "Option::<T>::and_then",
                              "Option::<T>::filter")) and ct["args"] and _elem_index_of(m, m.resolve_operand(ct["args"][0])) == idx:
                for g in prog.fn_list:
                    if g.kind == "Closure" and g.mir and g.path.startswith(m.fn.path + "::{closure") and \
                            abs((g.line or 0) - ct["line"]) <= 4:
                        if any((g.mir.callee(t3) or {}).get("path") == "types::DiffOp::tag" for _, t3 in g.mir.calls()):
                            has_tag = True
                        if _fn_tests_tag_equal(prog, g):
                            has_eq_text = True
            h = prog.fn(path) if c.get("local") else None
            if h is not None and h.mir is not None and h is not m.fn:
                for pi, a in enumerate(ct["args"]):
                    if m.local_ty_str(a["p"]["l"]) != "usize" if a.get("k") in ("copy", "move") else True:
                        continue
                    arg_lin = _lin_idx(m, m.resolve_operand(a))
                    if _fn_tests_tag_equal(prog, h, (pi + 1, arg_lin, idx)):
                        has_tag = True
                        has_eq_text = True
        if has_tag and has_eq_text and equal_ok:
            return True
    return False


def rule_G7(prog):
    r = RuleResult("G7", "only an Equal op absorbs equal items: when compaction slides a change and hands the freed common "
                         "prefix/suffix (a count from common_prefix_len/common_suffix_len) to a neighbour with grow_left/"
                         "grow_right, that neighbour ops[j] has been tested to be an Equal op on the dominating branch")
    from .guard import strip
    for fn in prog.user_fns():
        if not fn.mir:
            continue
        m = fn.mir
        for bb, t in m.calls():
            c = m.callee(t)
            if not c or c["path"] not in ("types::DiffOp::grow_right", "types::DiffOp::grow_left"):
                continue
            common = False
            for amt in _alternatives(m, m.resolve_operand(t["args"][1])):
                a = strip(m.expand(amt, depth=4))
                if isinstance(a, tuple) and a and a[0] == "call" and a[1].rsplit("::<", 1)[0].endswith(("common_prefix_len", "common_suffix_len")):
                    common = True
            if not common:
                continue
            r.instances += 1
            idx = _elem_index_of(m, m.resolve_operand(t["args"][0]))
            ok = idx is not None and _tag_evidence(prog, m, idx, bb)
            r.ob(ok, "%s: `%s` line %d: ops[%s] tested to be Equal: %s" % (fn.path, t.get("src", ""), t["line"], _fmt_idx(idx or {}), ok))
            if not ok:
                r.find(fn.path, "absorb-untested:%s" % _fmt_idx(idx or {}),
                       "`%s` hands equal items to ops[%s] without having tested that this op is an Equal op: a Delete/Insert/"
                       "Replace neighbour would swallow items that are equal on both sides" % (t.get("src", ""), _fmt_idx(idx or {})),
                       file=fn.file, line=t["line"])
    return r


# ------------------------------------------------------------------ G8: grouping only cuts Equal ops
def rule_G8(prog):
    r = RuleResult("G8", "group_diff_ops passes changes through untouched: every DiffOp it constructs and every op field it "
                         "writes in place belongs to an Equal op; what it pushes into a group is either such a freshly cut "
                         "Equal piece or the iterated op itself; and every iteration of its loop over the ops pushes (no op is "
                         "skipped)")
    def helpers_of(fn, depth=2, seen=None):
        seen = set() if seen is None else seen
        out = []
        if depth <= 0 or not fn.mir:
            return out
        for bb, t in fn.mir.calls():
            c = fn.mir.callee(t) or {}
            g = prog.fn(c.get("path", "")) if c.get("local") and not c.get("trait") else None
            if g is not None and g.mir and g.path not in seen and g is not fn and g.module == fn.module:
                seen.add(g.path)
                out.append(g)
                out += helpers_of(g, depth - 1, seen)
        return out

    def only_cuts_equal(g):
        ags = [s_["rv"] for b in g.mir.blocks for s_ in b["stmts"]
               if s_["k"] == "assign" and s_["rv"]["k"] == "aggregate" and s_["rv"].get("adt") == DIFFOP]
        return bool(ags) and all(a["variant"] == "Equal" for a in ags)

    for fn in prog.find("common::group_diff_ops"):
        m = fn.mir
        r.instances += 1
        problems = []
        n_aggr = n_store = n_push = 0
        bodies = [fn] + helpers_of(fn)
        for body_fn in bodies:
          bm = body_fn.mir
          for i, b in enumerate(bm.blocks):
            if b["cleanup"]:
                continue
            for s_ in b["stmts"]:
                if s_["k"] != "assign":
                    continue
                rv = s_["rv"]
                if rv["k"] == "aggregate" and rv.get("adt") == DIFFOP:
                    n_aggr += 1
                    if rv["variant"] != "Equal":
                        problems.append("constructs DiffOp::%s (line %d)" % (rv["variant"], s_["line"]))
                for place, is_write in ((s_["p"], True), (rv.get("p") if rv["k"] == "ref" and rv.get("mut") else None, True)):
                    if not place:
                        continue
                    downs = [e["downcast"] for e in place["proj"] if isinstance(e, dict) and "downcast" in e]
                    tys = bm.local_ty_str(place["l"]) or ""
                    if downs and ("DiffOp" in tys) and "deref" in place["proj"]:
                        n_store += 1
                        if any(d not in ("Equal", "Some") for d in downs):
                            problems.append("writes a field of a %s op in place (line %d)" % ("/".join(downs), s_["line"]))
        # pushes of single ops
        push_blocks = []
        for bb, t in m.calls():
            c = m.callee(t) or {}
            if not c.get("path", "").endswith("Vec::<T, A>::push") or len(t["args"]) != 2:
                continue
            a = t["args"][1]
            ty = m.local_ty_str(a["p"]["l"]) if a.get("k") in ("copy", "move") else ""
            if ty != DIFFOP:
                continue
            n_push += 1
            push_blocks.append(bb)
            term = m.resolve_operand(a)

            def passes_through(tm, depth=0):
                """A freshly cut Equal, or (a copy of) the op the loop is iterating over."""
                if not isinstance(tm, tuple) or not tm or depth > 5:
                    return False
                if tm[0] == "aggregate":
                    return tm[1].endswith("DiffOp::Equal")
                if tm[0] in ("ref", "deref"):
                    return passes_through(tm[1], depth + 1)
                if tm[0] == "field" and isinstance(tm[1], tuple) and tm[1] and tm[1][0] == "downcast" and str(tm[1][2]) == "Some":
                    inner = tm[1][1]
                    e = m.expand(inner, depth=2) if isinstance(inner, tuple) else inner
                    return isinstance(e, tuple) and bool(e) and e[0] == "call" and e[1].endswith("::next")
                if tm[0] == "call":
                    # a cutting helper: constructs DiffOp values, all of them Equal (`split_equal_context(..)`)
                    g = prog.fn(tm[1])
                    return g is not None and g.mir is not None and only_cuts_equal(g)
                if tm[0] == "field" and isinstance(tm[1], tuple) and tm[1]:
                    return passes_through(tm[1], depth + 1) if tm[1][0] in ("call", "local") else False
                if tm[0] == "local" and isinstance(tm[2], int) and tm[2] > m.arg_count:
                    ds = m.defs().get(tm[2], [])
                    # every definition must pass (a local assigned in several match arms)
                    ok_all = bool(ds)
                    for d_ in ds:
                        if d_[2] == "assign":
                            ok_all = ok_all and passes_through(m.resolve_rvalue(d_[3]), depth + 1)
                        else:
                            cal = m.callee(d_[3]) or {}
                            ok_all = ok_all and passes_through(("call", cal.get("path", "?")), depth + 1)
                    return ok_all
                return False
            ok = passes_through(term)
            if not ok:
                problems.append("pushes `%s` (line %d), which is neither the iterated op nor a freshly cut Equal" % (
                    t.get("src", "?")[:60], t["line"]))
        # every iteration pushes
        loops = [(h, body) for h, body in m.loops() if any(b in body for b in push_blocks)]
        if not loops:
            problems.append("no loop over the ops that pushes into a group")
        else:
            h, body = max(loops, key=lambda x: len(x[1]))
            backs = [a for (a, b) in m.back_edges() if b == h]
            seen = set()
            stack = [s2 for s2 in m.succs(h) if s2 in body]
            escaped = False
            while stack:
                b = stack.pop()
                if b in seen or b in push_blocks or m.blocks[b]["cleanup"] or b not in body:
                    continue
                seen.add(b)
                if b in backs:
                    escaped = True
                    break
                stack.extend(m.succs(b))
            if escaped:
                problems.append("an iteration of the loop over the ops reaches the next one without pushing anything")
        r.ob(not problems, "group_diff_ops: %d DiffOp constructions, %d in-place writes, %d pushes: %s" % (
            n_aggr, n_store, n_push, problems or "only Equal ops are cut, changes pass through"))
        if problems:
            r.find(fn.path, "grouping", "group_diff_ops: " + "; ".join(problems[:4]), file=fn.file, line=fn.line)
    return r


# ------------------------------------------------------------------ G9: bulk removal from an op list conserves items
def _write_roots(m):
    """For every assignment through a pointer in a body: the argument locals the written place is reached from."""
    from .guard import roots
    out = []
    for bi, b in enumerate(m.blocks):
        for s in b["stmts"]:
            if s["k"] != "assign" or "deref" not in s["p"]["proj"]:
                continue
            base = m.expand(m.resolve_place({"l": s["p"]["l"], "proj": []}), depth=6)
            out.append((bi, s, {l for l in roots(base) if l <= m.arg_count}))
        t = b["term"]
        if t["k"] == "call":
            # a `&mut` handed to a method (`a.grow_right(n)`) writes through it as well
            for a in t["args"][:1]:
                if a.get("k") in ("copy", "move"):
                    term = m.expand(m.resolve_operand(a), depth=6)
                    ty = m.local_ty_str(a["p"]["l"]) if not a["p"]["proj"] else ""
                    if ty.startswith("&mut"):
                        out.append((bi, t, {l for l in roots(term) if l <= m.arg_count}))
    return out


def rule_G9(prog):
    r = RuleResult("G9", "bulk removal from a list of DiffOp conserves items: `retain` only drops ops shown empty; in "
                         "`dedup_by(|a, b| ..)` -- which removes `a`, the LATER element, when the closure says true -- nothing is "
                         "written into `a` (it is about to be dropped) and the surviving `b` is what grows; `dedup`, "
                         "`dedup_by_key`, `truncate`, `pop`, `swap_remove`, `split_off`, `clear` are not used on a script")
    closures = {f.path: f for f in prog.user_fns() if f.kind == "Closure"}
    BULK = ("retain", "retain_mut", "dedup_by", "dedup", "dedup_by_key", "truncate", "pop", "swap_remove", "split_off", "clear")
    for fn in prog.user_fns():
        if not fn.mir or not (fn.module.startswith("algorithms::compact") or fn.module.startswith("algorithms::replace") or fn.module == "common"):
            continue
        m = fn.mir
        for bb, t in m.calls():
            c = m.callee(t)
            if not c or not c["path"].startswith("std::vec::Vec::<T, A>::") or c.get("method") not in BULK or not _mentions_diffop(c["args"]):
                continue
            # a Vec<Vec<DiffOp>> (groups) is not a script
            first = c["args"][0] if c["args"] else {}
            if not (isinstance(first, dict) and first.get("k") == "adt" and first.get("path") == DIFFOP):
                continue
            meth = c["method"]
            r.instances += 1
            problems = []
            clos = None
            for a in c["args"]:
                if isinstance(a, dict) and a.get("k") == "closure":
                    clos = closures.get(a["path"])
            if meth in ("retain", "retain_mut"):
                ok = False
                from .tables import unwrap, origin, find_nodes
                cnode = None
                if clos is not None and fn.hir and fn.hir.get("body"):
                    for n in find_nodes(fn.hir["body"], lambda n: n["k"] == "closure"):
                        if n.get("def") == clos.path or (clos.path.endswith(str(n.get("def", "?")).split("::")[-1]) and n.get("line") == clos.line):
                            cnode = n
                if cnode is not None:
                    body = unwrap(cnode["body"])
                    for _ in range(3):
                        if isinstance(body, dict) and body.get("k") == "block" and not body["b"]["stmts"] and body["b"].get("expr"):
                            body = unwrap(body["b"]["expr"])
                    if isinstance(body, dict) and body.get("k") == "unary" and body.get("op") == "Not":
                        x = unwrap(body["x"])
                        if isinstance(x, dict) and x.get("k") == "mcall" and x["name"] == "is_empty" and str(x.get("method", "")).endswith("DiffOp::is_empty"):
                            ok = True
                if not ok:
                    problems.append("`retain` keeps ops by a condition other than `!op.is_empty()`: ops that still hold items are dropped")
            elif meth == "dedup_by":
                if clos is None or not clos.mir:
                    problems.append("closure of dedup_by not found")
                else:
                    cm = clos.mir
                    ws = _write_roots(cm)
                    into_a = [w for w in ws if 2 in w[2]]
                    into_b = [w for w in ws if 3 in w[2]]
                    if into_a:
                        problems.append("the closure writes into its first parameter `%s` (line %d), the element dedup_by REMOVES when the "
                                        "closure returns true: what was added there is lost" % (cm.local_name(2) or "_2", into_a[0][1].get("line", clos.line)))
                    if not into_b:
                        problems.append("the surviving element (second parameter `%s`) never grows: the removed op's items vanish" % (cm.local_name(3) or "_3"))
            else:
                problems.append("`%s` removes ops from a script without conserving their items" % meth)
            r.ob(not problems, "%s: `%s` line %d: %s" % (fn.path, t.get("src", meth)[:60], t["line"], problems or "conserving"))
            if problems:
                r.find(fn.path, "bulk-removal:%s" % meth, "`%s`: %s" % (t.get("src", meth)[:70], "; ".join(problems)), file=fn.file, line=t["line"])
    return r


# ------------------------------------------------------------------ G10: the position a slide returns is the position to go on from
def rule_G10(prog):
    r = RuleResult("G10", "sliding an op changes the list under the cursor (ops are merged, removed, inserted): the index "
                          "returned by shift_diff_ops_up / shift_diff_ops_down is never discarded -- the caller goes on from it")
    from .cursor import _op_locals, _rv_locals
    targets = ("algorithms::compact::shift_diff_ops_up", "algorithms::compact::shift_diff_ops_down")
    for fn in prog.user_fns():
        if not fn.mir:
            continue
        m = fn.mir
        used = set()
        for b in m.blocks:
            for s in b["stmts"]:
                if s["k"] == "assign":
                    used |= set(_rv_locals(s["rv"]))
            t = b["term"]
            if t["k"] == "call":
                for a in t["args"]:
                    used |= set(_op_locals(a))
            elif t["k"] == "switch":
                used |= set(_op_locals(t["discr"]))
            elif t["k"] == "return":
                used.add(0)
        for bb, t in m.calls():
            c = m.callee(t) or {}
            if c.get("path") not in targets:
                continue
            r.instances += 1
            d = t["dest"]["l"]
            ok = d in used or d == 0
            r.ob(ok, "%s: `%s` (line %d): returned index %s" % (fn.path, t.get("src", "")[:60], t["line"], "used" if ok else "DISCARDED"))
            if not ok:
                r.find(fn.path, "slide-result-dropped:%s" % c["path"].rsplit("::", 1)[-1],
                       "`%s` discards the index returned by %s: the op may have merged with a neighbour or moved, so the "
                       "caller continues from a stale position and skips or revisits ops" % (
                           t.get("src", "")[:70], c["path"].rsplit("::", 1)[-1]), file=fn.file, line=t["line"])
    return r


# ------------------------------------------------------------------ G11: a hand-written flattening iterator loops
def rule_G11(prog):
    r = RuleResult("G11", "an iterator that expands a list of ops one op at a time (`AllChangesIter::next`: inner `ChangesIter` "
                          "plus the remaining `ops`) fetches the next op in a LOOP (or by calling itself): an op that expands to "
                          "nothing -- any number of them in a row -- must not end the iteration, so the inner `next()` and the "
                          "fetch of the following op lie on a common cycle of the control-flow graph (private helpers and "
                          "closures that do either are looked into)")
    from .facts import term_str
    FETCH = ("split_first", "first", "get", "split_at", "split_last", "iter")
    memo = {}

    def kinds_of(g, depth=0):
        """{'inner', 'fetch'}: what a function body (with the helpers and closures it uses) does"""
        if g.path in memo:
            return memo[g.path]
        memo[g.path] = set()
        out = set()
        gm = g.mir
        for bb, t in gm.calls():
            out |= kinds_call(g, t, depth)
        memo[g.path] = out
        return out

    def kinds_call(g, t, depth):
        gm = g.mir
        c = gm.callee(t) or {}
        out = set()
        a0 = term_str(gm.expand(gm.resolve_operand(t["args"][0]), depth=3)) if t["args"] else ""
        if c.get("trait") == "std::iter::Iterator" and c.get("method") == "next" and "Range" not in str(c.get("self_ty", "")):
            tgt = c.get("resolved") or ""
            if "ChangesIter" in tgt or "ChangesIter" in str(c.get("path_args", "")) or "current" in a0 or "iter" in a0:
                out.add("inner")
        if c.get("path", "").startswith("core::slice::<impl [") and _mentions_diffop(c.get("args")) and \
                c.get("method", c.get("path", "").rsplit("::", 1)[-1]) in FETCH:
            out.add("fetch")
        if depth < 3:
            h = prog.fn(c.get("resolved") or "") if c.get("resolved_local") else (prog.fn(c.get("path", "")) if c.get("local") else None)
            if h is not None and h.mir and h.path != g.path:
                out |= kinds_of(h, depth + 1)
            for a in c.get("args", []) or []:
                if isinstance(a, dict) and a.get("k") == "closure":
                    cf = prog.fn(a.get("path", ""))
                    if cf is not None and cf.mir:
                        out |= kinds_of(cf, depth + 1)
        return out

    for fn in prog.user_fns():
        if not fn.mir or fn.name != "next" or fn.kind == "Closure" or not fn.impl or (fn.impl.get("trait") or "") != "std::iter::Iterator":
            continue
        if not (fn.module.startswith("iter") or fn.module.startswith("text") or fn.module.startswith("udiff")):
            continue
        m = fn.mir
        inner, fetch, selfcalls = [], [], []
        for bb, t in m.calls():
            c = m.callee(t) or {}
            if (c.get("resolved") or c.get("path")) == fn.path:
                selfcalls.append(bb)
                continue
            ks = kinds_call(fn, t, 0)
            if "inner" in ks:
                inner.append(bb)
            if "fetch" in ks:
                fetch.append(bb)
        if not inner or not fetch:
            continue
        r.instances += 1
        loops = m.loops()
        ok = bool(selfcalls) or any(any(i in body for i in inner) and any(f in body for f in fetch) for h, body in loops)
        r.ob(ok, "%s: inner next() in bb%s, op fetch in bb%s, %d loop(s)%s" % (fn.path, inner, fetch, len(loops), ", recursive" if selfcalls else ""))
        if not ok:
            r.find(fn.path, "flatten-without-loop",
                   "%s expands a list of ops through an inner iterator but the inner `next()` and the fetch of the following op "
                   "are not on a common loop (and the function does not call itself): a run of ops that expand to nothing ends "
                   "the iteration early" % fn.path, file=fn.file, line=fn.line)
    return r


# ------------------------------------------------------------------ G12: a zip is reversed side by side, not as a whole
def rule_G12(prog):
    r = RuleResult("G12", "`a.zip(b).rev()` pairs the items from the FRONT: Zip's double-ended iteration first cuts the longer "
                          "side at its back to the common length.  Walking two ranges from their ends (common suffix) is "
                          "`a.rev().zip(b.rev())`; a reversed zip (also behind skip/take/enumerate) is accepted only when both "
                          "sides are ranges of the same written length")
    from .guard import strip
    from .cursor import lin, norm
    for fn in prog.user_fns():
        if not fn.mir or not (fn.module.startswith("algorithms") or fn.module.startswith("text") or fn.module in ("common", "utils", "iter", "udiff", "types")):
            continue
        m = fn.mir
        for bb, t in m.calls():
            c = m.callee(t) or {}
            if c.get("method") != "rev" or c.get("trait") not in ("std::iter::Iterator", "std::iter::DoubleEndedIterator"):
                continue
            sty = str(c.get("path_args") or c.get("self_ty") or "")
            if "std::iter::Zip<" not in sty:
                continue
            r.instances += 1
            # find the zip call in the receiver chain
            term = strip(m.expand(m.resolve_operand(t["args"][0]), depth=4))
            same = False
            for _ in range(6):
                if isinstance(term, tuple) and term and term[0] == "call":
                    if term[1].endswith("::zip") or "::zip::<" in term[1]:
                        lens = []
                        for a in term[2][:2]:
                            a = strip(m.expand(a, depth=3))
                            if isinstance(a, tuple) and a and a[0] == "aggregate" and "start" in a[2] and "end" in a[2]:
                                d = dict(norm(lin(m, a[2]["end"])))
                                for k_, v_ in norm(lin(m, a[2]["start"])).items():
                                    d[k_] = d.get(k_, 0) - v_
                                lens.append(tuple(sorted((k_, v_) for k_, v_ in d.items() if v_)))
                            else:
                                lens.append(None)
                        same = len(lens) == 2 and lens[0] is not None and lens[0] == lens[1]
                        break
                    term = strip(term[2][0]) if term[2] else None
                else:
                    break
            r.ob(same, "%s: `%s` (line %d): both sides have the same written length: %s" % (fn.path, t.get("src", "rev")[:60], t["line"], same))
            if not same:
                r.find(fn.path, "reversed-zip", "`%s` reverses a zip of two sequences that are not shown to have the same length: the "
                       "pairs are aligned at the front (the longer side loses its tail), not at the ends -- items at equal "
                       "distance from the END are `a.rev().zip(b.rev())`" % t.get("src", "zip(..).rev()")[:80],
                       file=fn.file, line=t["line"])
    return r


# ------------------------------------------------------------------ G13: the items a slide takes from one Equal run go to another
def rule_G13(prog):
    r = RuleResult("G13", "a slide conserves the equal items it moves: where shift_diff_ops_up/down takes S items away from an "
                          "Equal neighbour (`shrink_left/shrink_right(S)` with S a measured common length), every path from the "
                          "measurement to that call first hands S items to another Equal op -- `grow_left/grow_right(S)` of a "
                          "neighbour or the insertion of a new `Equal { len: S }` -- on ALL paths (an `if let Some(prev)` without "
                          "an `else` loses the items when there is no previous op)")
    from .guard import strip
    for fn in prog.user_fns():
        if not fn.mir or not fn.module.startswith("algorithms::compact"):
            continue
        m = fn.mir

        def measured(op):
            for amt in _alternatives(m, m.resolve_operand(op)):
                a = strip(m.expand(amt, depth=4))
                if isinstance(a, tuple) and a and a[0] == "call" and a[1].rsplit("::<", 1)[0].endswith(("common_prefix_len", "common_suffix_len")):
                    return a
            return None

        gives = []      # blocks that hand a measured amount to an Equal op
        takes = []      # (block, terminator, measured call term)
        for bb, t in m.calls():
            c = m.callee(t) or {}
            p = c.get("path", "")
            if p in ("types::DiffOp::grow_left", "types::DiffOp::grow_right") and len(t["args"]) > 1 and measured(t["args"][1]) is not None:
                gives.append(bb)
            elif p in ("types::DiffOp::shrink_left", "types::DiffOp::shrink_right") and len(t["args"]) > 1:
                ms = measured(t["args"][1])
                if ms is not None:
                    takes.append((bb, t, ms))
            elif p == "std::vec::Vec::<T, A>::insert" and _mentions_diffop(c.get("args")) and len(t["args"]) > 2:
                v = strip(m.expand(m.resolve_operand(t["args"][2]), depth=3))
                if isinstance(v, tuple) and v and v[0] == "aggregate" and str(v[1]).endswith("DiffOp::Equal"):
                    ln = v[2].get("len")
                    if ln is not None:
                        # the new Equal op's length is built from the measured amount (whether it is the right amount is
                        # A4's / F16's business: the Delete arm's `old_range.len() - suffix_len` is the reviewed dead code)
                        from .cursor import _contains_call
                        a = m.expand(ln, depth=4)
                        if _contains_call(a, "common_prefix_len") or _contains_call(a, "common_suffix_len") or \
                                any(_contains_call(m.expand(x, depth=4), "common_prefix_len") or _contains_call(m.expand(x, depth=4), "common_suffix_len")
                                    for x in _alternatives(m, ln)):
                            gives.append(bb)
        for bb, t, ms in takes:
            r.instances += 1
            # the measuring call block: the single definition site of the measured value
            mb = ms[4] if len(ms) > 4 and isinstance(ms[4], int) else None
            if mb is None:
                r.ob(True, "%s: `%s` line %d: measurement site not resolved" % (fn.path, t.get("src", ""), t["line"]))
                continue
            start = m.blocks[mb]["term"].get("target")
            reach = m.reach_from([start] if start is not None else [], stop=tuple(gives) + (mb,))
            ok = bb not in reach
            r.ob(ok, "%s: `%s` line %d: the %d give site(s) cut every path from the measurement: %s" % (fn.path, t.get("src", "")[:50], t["line"], len(gives), ok))
            if not ok:
                r.find(fn.path, "slid-items-lost:%s" % (m.callee(t)["path"].rsplit("::", 1)[-1]),
                       "`%s` takes the measured common items away from an Equal op, but a path from the measurement (line %d) reaches "
                       "it without a grow_left/grow_right of a neighbour or the insertion of a new Equal op of that length: on "
                       "that path the items vanish from the script" % (t.get("src", "")[:70], m.blocks[mb]["term"].get("line", 0)),
                       file=fn.file, line=t["line"])
    return r
