"""Engine G: order-changing operations on lists of DiffOp (MIR).

An op's carried positions are a function of its place in the list, so any call that permutes a
`[DiffOp]` must be followed -- on every path to the next loop back-edge or return -- by a rewrite of the
affected elements.  A swap of an adjacent Delete/Insert without rewrite leaves the Insert's old index and
the Delete's new index stale, which is a C11 violation for every input that reaches the swap.
"""
from .core import RuleResult
from .facts import const_int

DIFFOP = "types::DiffOp"

ORDER_CALLEES = {
    "core::slice::<impl [T]>::swap": "slice::swap",
    "core::slice::<impl [T]>::reverse": "slice::reverse",
    "core::slice::<impl [T]>::rotate_left": "slice::rotate_left",
    "core::slice::<impl [T]>::rotate_right": "slice::rotate_right",
    "core::slice::<impl [T]>::swap_with_slice": "slice::swap_with_slice",
    "core::slice::<impl [T]>::select_nth_unstable": "slice::select_nth_unstable",
    "core::slice::<impl [T]>::select_nth_unstable_by": "slice::select_nth_unstable_by",
    "core::slice::<impl [T]>::select_nth_unstable_by_key": "slice::select_nth_unstable_by_key",
    "core::slice::<impl [T]>::sort_unstable": "slice::sort_unstable",
    "core::slice::<impl [T]>::sort_unstable_by": "slice::sort_unstable_by",
    "core::slice::<impl [T]>::sort_unstable_by_key": "slice::sort_unstable_by_key",
    "std::slice::<impl [T]>::sort": "slice::sort",
    "std::slice::<impl [T]>::sort_by": "slice::sort_by",
    "std::slice::<impl [T]>::sort_by_key": "slice::sort_by_key",
    "std::slice::<impl [T]>::sort_by_cached_key": "slice::sort_by_cached_key",
    "alloc::slice::<impl [T]>::sort": "slice::sort",
    "alloc::slice::<impl [T]>::sort_by": "slice::sort_by",
    "alloc::slice::<impl [T]>::sort_by_key": "slice::sort_by_key",
    "std::vec::Vec::<T, A>::swap_remove": "Vec::swap_remove",
    "std::mem::swap": "mem::swap",
    "std::mem::replace": "mem::replace",
    "std::ptr::swap": "ptr::swap",
}

REWRITE_CALLEES = (
    "std::ops::IndexMut::index_mut",
    "core::slice::<impl [T]>::get_mut",
    "core::slice::<impl [T]>::split_at_mut",
    "core::slice::<impl [T]>::iter_mut",
    "core::slice::<impl [T]>::first_mut",
    "core::slice::<impl [T]>::last_mut",
)


def _mentions_diffop(tyj):
    if isinstance(tyj, dict):
        if tyj.get("k") == "adt" and tyj.get("path") == DIFFOP:
            return True
        return any(_mentions_diffop(v) for v in tyj.values())
    if isinstance(tyj, list):
        return any(_mentions_diffop(v) for v in tyj)
    return False


def order_sites(prog):
    """All calls that permute DiffOp elements: [(fn, bb, term, short name)]."""
    out = []
    for fn in prog.user_fns():
        if not fn.mir:
            continue
        for bb, t in fn.mir.calls():
            c = fn.mir.callee(t)
            if not c:
                continue
            short = ORDER_CALLEES.get(c["path"])
            if short and _mentions_diffop(c["args"]):
                out.append((fn, bb, t, short))
    return out


def _min_rewrites_after(mir, bb):
    """Minimum number of element-rewrite events on any path from the successor of `bb` to a loop
    back-edge or return (paths are cut at back edges)."""
    back = set(mir.back_edges())
    INF = 10 ** 6
    memo = {}

    def events(b):
        t = mir.blocks[b]["term"]
        n = 0
        if t["k"] == "call":
            c = mir.callee(t)
            if c and c["path"] in REWRITE_CALLEES and _mentions_diffop(c["args"]):
                n = 1
        # whole-element store through an index projection: ops[i] = ...
        for s in mir.blocks[b]["stmts"]:
            if s["k"] == "assign" and any(isinstance(e, dict) and "index" in e for e in s["p"]["proj"]):
                n += 1
        return n

    def go(b, stack):
        if b in memo:
            return memo[b]
        if b in stack:
            return INF
        t = mir.blocks[b]["term"]
        e = events(b)
        if t["k"] == "return":
            memo[b] = e
            return e
        best = INF
        succs = mir.succs(b)
        if not succs:
            best = INF  # diverges (panic): no obligation
        for s in succs:
            if (b, s) in back:
                best = min(best, 0)
            else:
                best = min(best, go(s, stack | {b}))
        r = e + best if best < INF else INF
        memo[b] = r
        return r

    t = mir.blocks[bb]["term"]
    if t["target"] is None:
        return INF
    return go(t["target"], frozenset([bb]))


def rule_G1(prog):
    r = RuleResult("G1", "every order-changing call on a [DiffOp] is followed, on every path to the next loop "
                         "back-edge or return, by a rewrite of both affected elements (carried indices are "
                         "position-dependent)")
    for fn, bb, t, short in order_sites(prog):
        r.instances += 1
        n = _min_rewrites_after(fn.mir, bb)
        ok = n >= 2
        r.ob(ok, "%s: %s at %s:%d -> min element rewrites on a path to back-edge/return = %s" % (
            fn.path, short, fn.file, t["line"], n if n < 10 ** 6 else "inf"))
        if not ok:
            r.find(fn.path, short,
                   "%s permutes DiffOp elements (%s) and %d element rewrite(s) follow on some path: the carried "
                   "new_index of a Delete / old_index of an Insert stays stale" % (short, t.get("src", ""), n),
                   file=fn.file, line=t["line"], extra={"callee": short, "min_rewrites": n, "src": t.get("src")})
    return r


def carried_index_consumers(prog):
    """Functions outside types.rs / compact.rs that read both range starts of ops of unknown tag
    (e.g. UnifiedHunkHeader::new): they observe a carried index."""
    out = []
    for fn in prog.user_fns():
        if not fn.mir or fn.module in ("types", "algorithms::compact"):
            continue
        names = set()
        for bb, t in fn.mir.calls():
            c = fn.mir.callee(t)
            if c and c["path"] in ("types::DiffOp::old_range", "types::DiffOp::new_range", "types::DiffOp::as_tag_tuple"):
                names.add(c["path"].rsplit("::", 1)[-1])
        if names:
            out.append((fn, sorted(names)))
    return out


def rule_G2(prog):
    """Consumers of carried indices, reported only while unrepaired G1 sites exist (C05)."""
    r = RuleResult("G2", "a consumer that derives output from the range starts of the first/last op of a group "
                         "(unified-diff hunk header) sees true coordinates only if no unrepaired order-changing "
                         "site exists")
    g1 = rule_G1(prog)
    cons = [(fn, names) for fn, names in carried_index_consumers(prog) if fn.module == "udiff"]
    r.instances = len(cons)
    for fn, names in cons:
        ok = not g1.findings
        r.ob(ok, "%s reads %s of ops; unrepaired order-changing sites: %d" % (fn.path, "/".join(names), len(g1.findings)))
        if not ok:
            for f in g1.findings:
                r.find(fn.path, "stale-via:" + f.fn + ":" + f.detail,
                       "%s computes hunk extents from the carried index of the first/last op while %s (%s) leaves "
                       "carried indices stale" % (fn.path, f.fn, f.detail), file=fn.file, line=fn.line)
    return r
