"""Engine E: every length emitted by an algorithm is provably positive (MIR predicate dataflow).

State: a set of valuations; a valuation is a set of literals over resolved terms:
    ("empty", K, pol)    K = key of a Range place        (is_empty_range(&r), Range::is_empty(&r))
    ("lt", A, B, pol)    A < B over usize terms          (binops <, <=, >, >=, ==0, !=0)
switchInt edges on a boolean add the literal with the edge's polarity (`&&`/`||` are nested switches, so the
else-branch of `if A && B` carries {not A} or {A, not B}); an assignment to (or `&mut` borrow of) a local kills
the literals mentioning it.  At an emission the length argument must be derivably positive in every valuation.
"""
from .core import RuleResult
from .facts import term_str, const_int

HOOK = "algorithms::hook::DiffHook"
LEN_POS = {"equal": [3], "delete": [2], "insert": [3], "replace": [2, 4]}
SCOPE_MODULES = ("algorithms::myers", "algorithms::lcs", "algorithms::patience")
MAXV = 48


def roots(term, acc=None):
    acc = set() if acc is None else acc
    if isinstance(term, tuple):
        if term and term[0] == "local" and len(term) > 2 and isinstance(term[2], int):
            acc.add(term[2])
        else:
            for x in term:
                if isinstance(x, (tuple, list)):
                    roots(x, acc)
                elif isinstance(x, dict) and "path" not in x:
                    for v in x.values():
                        roots(v, acc)
    elif isinstance(term, list):
        for x in term:
            roots(x, acc)
    return acc


def strip(term):
    while isinstance(term, tuple) and term and term[0] in ("ref", "deref", "cast"):
        term = term[1]
    return term


def key(term):
    return term_str(strip(term))


def lit_of_condition(m, term):
    """Literal (without polarity) for a boolean term, plus polarity flip: returns (lit, flip) or None."""
    term = strip(term)
    if not isinstance(term, tuple):
        return None
    if term[0] == "unop" and term[1] == "Not":
        r = lit_of_condition(m, term[2])
        if r:
            return r[0], not r[1]
        return None
    if term[0] == "call":
        p = term[1]
        if p.endswith("utils::is_empty_range") or p.endswith("Range::<Idx>::is_empty") or p.endswith("ExactSizeIterator::is_empty"):
            a = strip(term[2][0])
            return ("empty", key(a), frozenset(roots(a))), False
        return None
    if term[0] == "binop":
        op, x, y = term[1], strip(term[2]), strip(term[3])
        kx, ky = key(x), key(y)
        rs = frozenset(roots(x) | roots(y))
        if op == "Lt":
            return ("lt", kx, ky, rs), False
        if op == "Gt":
            return ("lt", ky, kx, rs), False
        if op == "Le":      # x <= y  ==  not (y < x)
            return ("lt", ky, kx, rs), True
        if op == "Ge":      # x >= y  ==  not (x < y)
            return ("lt", kx, ky, rs), True
        if op in ("Ne", "Eq"):
            zero_y = y[0] == "const" and y[1] == 0
            zero_x = x[0] == "const" and x[1] == 0
            if zero_y or zero_x:
                k = kx if zero_y else ky
                return ("lt", "0", k, rs), (op == "Eq")
        return None
    return None


class Val:
    """One valuation: dict literal -> polarity."""
    __slots__ = ("lits",)

    def __init__(self, lits=()):
        self.lits = frozenset(lits)

    def add(self, lit, pol):
        if (lit, not pol) in self.lits:
            return None   # inconsistent
        return Val(self.lits | {(lit, pol)})

    def kill(self, local):
        n = frozenset(x for x in self.lits if local not in x[0][-1])
        return self if len(n) == len(self.lits) else Val(n)

    def has(self, lit_prefix, pol):
        for (l, p) in self.lits:
            if p == pol and l[:-1] == lit_prefix:
                return True
        return False

    def __hash__(self):
        return hash(self.lits)

    def __eq__(self, o):
        return self.lits == o.lits


def positive(m, term, val, depth=0):
    """Is `term` derivably > 0 under valuation `val`?  Returns (bool, reason)."""
    term = strip(term)
    if not isinstance(term, tuple):
        return False, "?"
    k = key(term)
    if term[0] == "const":
        return (isinstance(term[1], int) and term[1] >= 1), "literal %s" % term[1]
    if val.has(("lt", "0", k), True):
        return True, "%s > 0" % k
    # x >= c, c >= 1   (not (x < c))
    for (l, p) in val.lits:
        if l[0] == "lt":
            if not p and l[1] == k and l[2].isdigit() and int(l[2]) >= 1:
                return True, "%s >= %s" % (k, l[2])
            if p and l[2] == k and (l[1].isdigit()):
                return True, "%s > %s" % (k, l[1])
    if term[0] == "call" and (term[1].endswith("ExactSizeIterator::len") or term[1].endswith("Range::<usize>::len")):
        a = strip(term[2][0])
        ka = key(a)
        if val.has(("empty", ka), False):
            return True, "!empty(%s)" % ka
        if val.has(("lt", ka + ".start", ka + ".end"), True):
            return True, "%s.start < %s.end" % (ka, ka)
        return False, "%s.len() with no fact !empty(%s)" % (ka, ka)
    if term[0] == "binop" and term[1] in ("Sub", "SubWithOverflow", "SubUnchecked"):
        b, a = strip(term[2]), strip(term[3])
        kb, ka = key(b), key(a)
        if val.has(("lt", ka, kb), True):
            return True, "%s < %s" % (ka, kb)
        # r.end - r.start with !empty(r)
        if b[0] == "field" and a[0] == "field" and b[2] == "end" and a[2] == "start" and key(b[1]) == key(a[1]):
            kr = key(b[1])
            if val.has(("empty", kr), False):
                return True, "!empty(%s)" % kr
        return False, "%s - %s with no fact %s < %s" % (kb, ka, ka, kb)
    if term[0] == "binop" and term[1] in ("Add", "AddWithOverflow", "AddUnchecked"):
        for x in (term[2], term[3]):
            ok, why = positive(m, x, val, depth + 1)
            if ok:
                return True, why
        return False, "%s: neither summand known positive" % k
    if term[0] == "field" and isinstance(term[1], tuple) and term[1][0] in ("binop",):
        # (a + b).0 of a checked-arithmetic tuple
        return positive(m, term[1], val, depth + 1)
    if term[0] == "local" and depth < 3 and isinstance(term[2], int) and term[2] > m.arg_count:
        e = m.expand(term, depth=1)
        if e != term:
            return positive(m, e, val, depth + 1)
    return False, "no fact makes %s positive" % k


class Flow:
    def __init__(self, fn):
        self.fn = fn
        self.m = fn.mir
        self.instate = {}

    def run(self):
        m = self.m
        self.instate = {0: frozenset([Val()])}
        work = [0]
        iters = 0
        while work:
            b = work.pop()
            iters += 1
            if iters > 20000:
                break
            st = self.instate[b]
            blk = m.blocks[b]
            if blk["cleanup"]:
                continue
            out = self.transfer_stmts(b, st)
            t = blk["term"]
            edges = []
            el = self.edge_lits(b, t) if t["k"] == "switch" else None
            if el is not None:
                for tgt, lits in el:
                    ns = set()
                    for val in out:
                        nv = val
                        for lit, pol in lits:
                            nv = nv.add(lit, pol) if nv is not None else None
                        if nv is not None:
                            ns.add(nv)
                    edges.append((tgt, frozenset(ns)))
            elif t["k"] == "switch":
                cond = self.bool_cond(b, t)
                if cond is not None:
                    lit, flip = cond
                    tgts = list(zip(t["values"], t["targets"])) + [(None, t["otherwise"])]
                    for v, tgt in tgts:
                        if v is None:
                            truth = not any(x == "1" for x in t["values"]) if t["values"] != ["0"] else True
                            if t["values"] == ["0"]:
                                truth = True
                            elif t["values"] == ["1"]:
                                truth = False
                            else:
                                edges.append((tgt, out))
                                continue
                        else:
                            truth = (v != "0")
                        pol = truth != flip
                        ns = set()
                        for val in out:
                            nv = val.add(lit, pol)
                            if nv is not None:
                                ns.add(nv)
                        edges.append((tgt, frozenset(ns)))
                else:
                    for s in m.succs(b):
                        edges.append((s, out))
            elif t["k"] == "call":
                o2 = out
                # a call taking `&mut local` may modify it
                for a in t["args"]:
                    if a["k"] in ("copy", "move") and not a["p"]["proj"]:
                        sd = m.single_def(a["p"]["l"])
                        if sd and sd[2] == "assign" and sd[3]["k"] == "ref" and sd[3]["mut"]:
                            o2 = frozenset(v.kill(sd[3]["p"]["l"]) for v in o2)
                if not t["dest"]["proj"] or True:
                    o2 = frozenset(v.kill(t["dest"]["l"]) for v in o2)
                if t["target"] is not None:
                    edges.append((t["target"], o2))
            else:
                for s in m.succs(b):
                    edges.append((s, out))
            for tgt, ns in edges:
                if not ns:
                    continue     # edge infeasible under every valuation
                old = self.instate.get(tgt)
                new = ns if old is None else (old | ns)
                if len(new) > MAXV:
                    new = self.widen(new)
                if old is None or new != old:
                    self.instate[tgt] = new
                    work.append(tgt)

    def widen(self, vals):
        """Too many valuations: forget whole atoms (weakening every valuation, merging those that become equal) until
        at most MAXV remain.  Atoms that occur with both polarities are forgotten first (they are what multiplies the
        valuations), then atoms only some valuations know; atoms named in `self.protect` go last.  An atom that every
        valuation holds with the same polarity is never touched, so the result keeps at least what the plain
        intersection of all valuations would."""
        protect = getattr(self, "protect", ())
        vals = set(vals)
        while len(vals) > MAXV:
            cnt = {}
            for v in vals:
                for (l, p) in v.lits:
                    c = cnt.setdefault(l, [0, 0])
                    c[1 if p else 0] += 1
            n = len(vals)
            cand = []
            for l, (f, t) in cnt.items():
                if f + t == n and (f == 0 or t == 0):
                    continue
                prot = 1 if (l[:-1] in protect or l[0] == "emitted") else 0
                cand.append((prot, -min(f, t), f + t, repr(l), l))
            if not cand:
                break
            cand.sort(key=lambda x: x[:4])
            drop = cand[0][4]
            vals = set(Val(x for x in v.lits if x[0] != drop) for v in vals)
        return frozenset(vals)

    def edge_lits(self, b, t):
        """Optional per-edge literals for non-boolean switches (overridden by clients)."""
        return None

    def transfer_stmts(self, b, st):
        m = self.m
        out = st
        for s in m.blocks[b]["stmts"]:
            if s["k"] == "assign":
                l = s["p"]["l"]
                if m.local_name(l) is not None or s["p"]["proj"] or l <= m.arg_count:
                    out = frozenset(v.kill(l) for v in out)
        return out

    def bool_cond(self, b, t):
        m = self.m
        d = t["discr"]
        if t.get("discr_ty") != "bool":
            return None
        if d["k"] not in ("copy", "move"):
            return None
        term = m.resolve_operand(d)
        r = lit_of_condition(m, term)
        if r is None:
            # named boolean? try one expansion
            r = lit_of_condition(m, m.expand(term, depth=2))
        return r


def emission_sites(prog):
    out = []
    for fn in prog.user_fns():
        if not fn.mir or fn.module not in SCOPE_MODULES:
            continue
        sites = []
        for bb, t in fn.mir.calls():
            c = fn.mir.callee(t)
            if c and c.get("trait") == HOOK and c.get("method") in LEN_POS:
                sites.append((bb, t, c))
        if sites:
            out.append((fn, sites))
    return out


def rule_E1(prog):
    r = RuleResult("E1", "at every emission site of the three algorithms the length argument is derivably positive on "
                         "every path (literal >= 1, `x > 0` guard, `!empty(r)` for r.len() / r.end - r.start, `a < b` "
                         "for b - a): nothing empty is ever emitted")
    for fn, sites in emission_sites(prog):
        fl = Flow(fn)
        fl.run()
        m = fn.mir
        ordinal = {}
        for bb, t, c in sorted(sites, key=lambda x: (x[1]["line"], x[0])):
            meth = c["method"]
            ordinal[meth] = ordinal.get(meth, 0) + 1
            for pos in LEN_POS[meth]:
                r.instances += 1
                term = m.resolve_operand(t["args"][pos])
                st = fl.instate.get(bb)
                if st is None:
                    r.ob(True, "%s: %s (line %d) unreachable" % (fn.path, t.get("src", meth), t["line"]))
                    continue
                # facts hold at block entry; kills inside the block before the call are applied
                st = fl.transfer_stmts(bb, st)
                bad = None
                why_ok = None
                for val in st:
                    ok, why = positive(m, term, val)
                    if not ok:
                        bad = (val, why)
                        break
                    why_ok = why
                r.ob(bad is None, "%s: `%s` line %d: length %s %s" % (
                    fn.path, t.get("src", meth), t["line"], term_str(term),
                    ("positive because " + str(why_ok)) if bad is None else "MAY BE ZERO: " + bad[1]))
                if bad is not None:
                    facts = sorted(("%s%s" % ("" if p else "!", _lit_s(l))) for l, p in bad[0].lits)
                    r.find(fn.path, "%s#%d:arg%d" % (meth, ordinal[meth], pos),
                           "length `%s` of `%s` may be zero: %s (facts on the offending path: %s)" % (
                               term_str(term), t.get("src", meth), bad[1], ", ".join(facts) or "none"),
                           file=fn.file, line=t["line"], extra={"facts": facts})
    return r


def _lit_s(l):
    if l[0] == "empty":
        return "empty(%s)" % l[1]
    return "%s < %s" % (l[1], l[2])
