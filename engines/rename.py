"""Rename-robust anchors.

The rule tables mention a number of *private* items by name (compact.rs' two slide functions, `make_table`, the
`Patience` hook struct, `MultiLookup`, ..).  A maintainer may rename any of them without changing behaviour.  Before the
rules run, every such item is looked up by what it does (its structural role); if the name the tables know is gone and
exactly one item plays the role, the item's path is rewritten to the canonical one throughout the exported facts.  Source
excerpts (`src` fields) keep the real names, and so do file/line positions: reports stay diagnosable.

Nothing is rewritten when the canonical name still exists, or when the role is ambiguous (then the rules see the tree
as it is and fail closed on the lost anchor).
"""
import json
import re
from collections import defaultdict

_GEN = re.compile(r"::<[^<>]*(?:<[^<>]*(?:<[^<>]*>[^<>]*)*>[^<>]*)*>")


def _short(p):
    prev = None
    while prev != p:
        prev = p
        p = _GEN.sub("", p)
    return p


def _module_of(fn):
    sp = _short(fn.get("path", ""))
    if sp.startswith("<"):
        inner = sp[1:].split(" as ")[0]
        return inner.rsplit("::", 1)[0] if "::" in inner else ""
    parts = sp.split("::")
    if fn.get("impl"):
        return "::".join(parts[:-2])
    return "::".join(parts[:-1])


def _calls(fn, suffix):
    mir = fn.get("mir") or {}
    for b in mir.get("blocks", []):
        t = b.get("term") or {}
        if t.get("k") == "call":
            f = (t.get("func") or {}).get("fn") or {}
            for key in ("resolved", "path"):
                if _short(f.get(key) or "").endswith(suffix):
                    return True
    return False


def _callee_paths(fn):
    out = set()
    mir = fn.get("mir") or {}
    for b in mir.get("blocks", []):
        t = b.get("term") or {}
        if t.get("k") == "call":
            f = (t.get("func") or {}).get("fn") or {}
            if f.get("path"):
                out.add(_short(f["path"]))
            if f.get("resolved"):
                out.add(_short(f["resolved"]))
    return out


def _out(fn):
    sig = fn.get("sig") or {}
    return (sig.get("output_str") or "").replace(" ", "") if isinstance(sig, dict) else ""


def _hir_has(node, pred, depth=0):
    if isinstance(node, dict):
        if "k" in node and pred(node):
            return True
        return any(_hir_has(v, pred, depth + 1) for k, v in node.items() if k not in ("res", "tyj", "gargs") and isinstance(v, (dict, list)))
    if isinstance(node, list):
        return any(_hir_has(v, pred, depth + 1) for v in node)
    return False


# Crate items the rule tables mention by path (collected from engines/*.py and spec.py).  Used for *moves*: an item of
# this list that is gone while exactly one item with the same name exists in another module is taken to be that item.
KNOWN = [
    ("algorithms::capture::Capture", "adt"), ("algorithms::compact::Compact", "adt"), ("algorithms::hook::DiffHook", "trait"),
    ("algorithms::hook::NoFinishHook", "adt"), ("algorithms::patience::Patience", "adt"), ("algorithms::replace::Replace", "adt"),
    ("algorithms::utils::IdentifyDistinct", "adt"), ("algorithms::utils::UniqueItem", "adt"), ("iter::ChangesIter", "adt"),
    ("text::Deadline", "adt"), ("text::TextDiff", "adt"), ("text::TextDiffConfig", "adt"),
    ("text::abstraction::DiffableStr", "trait"), ("text::abstraction::DiffableStrRef", "trait"),
    ("text::inline::InlineChange", "adt"), ("text::inline::MultiLookup", "adt"), ("types::Change", "adt"), ("types::ChangeTag", "adt"),
    ("types::DiffOp", "adt"), ("types::DiffTag", "adt"), ("udiff::MissingNewlineHint", "adt"), ("udiff::UnifiedDiff", "adt"),
    ("udiff::UnifiedDiffHunk", "adt"), ("udiff::UnifiedDiffHunkRange", "adt"), ("udiff::UnifiedHunkHeader", "adt"),
    ("utils::TextDiffRemapper", "adt"), ("utils::SliceRemapper", "adt"),
    ("algorithms::compact::cleanup_diff_ops", "fn"), ("algorithms::compact::shift_diff_ops_down", "fn"),
    ("algorithms::compact::shift_diff_ops_up", "fn"), ("algorithms::lcs::make_table", "fn"), ("algorithms::myers::conquer", "fn"),
    ("algorithms::myers::find_middle_snake", "fn"), ("algorithms::myers::split_at", "fn"),
    ("algorithms::utils::common_prefix_len", "fn"), ("algorithms::utils::common_suffix_len", "fn"), ("algorithms::utils::unique", "fn"),
    ("common::capture_diff_deadline", "fn"), ("common::group_diff_ops", "fn"), ("common::get_diff_ratio", "fn"),
    ("deadline_support::deadline_exceeded", "fn"), ("deadline_support::duration_to_deadline", "fn"),
    ("text::inline::iter_inline_changes", "fn"), ("text::inline::push_values", "fn"), ("udiff::unified_diff", "fn"),
]


def _moves(facts):
    """[(actual, canonical)] for whole modules that were renamed and for single known items that moved to another module."""
    fns = [f for f in facts["fns"] if f.get("kind") != "Closure"]
    free = {}
    for f in fns:
        if not f.get("impl"):
            free.setdefault(_short(f["path"]).rsplit("::", 1)[-1], []).append(_short(f["path"]))
    items = {}
    for a in facts["items"]["adts"]:
        items.setdefault(a["path"].rsplit("::", 1)[-1], []).append(a["path"])
    for t in facts["items"]["traits"]:
        items.setdefault(t["path"].rsplit("::", 1)[-1], []).append(t["path"])
    present = {a["path"] for a in facts["items"]["adts"]} | {t["path"] for t in facts["items"]["traits"]} | \
        {_short(f["path"]) for f in fns}
    known_paths = {p for p, _ in KNOWN}
    out = []
    # (1) a whole module renamed (file renamed): every known item of module M is missing and all of them are found, under
    # the same names, in one other module M2 that holds no known item of its own
    by_module = defaultdict(list)
    for p, kind in KNOWN:
        by_module[p.rsplit("::", 1)[0]].append((p, kind))
    for mod, lst in by_module.items():
        if any(p in present for p, _ in lst):
            continue
        targets = set()
        ok = True
        for p, kind in lst:
            last = p.rsplit("::", 1)[-1]
            cands = [c for c in (free.get(last, []) if kind == "fn" else items.get(last, [])) if c not in known_paths]
            mods = {c.rsplit("::", 1)[0] for c in cands}
            if kind == "fn" and not cands:
                continue            # a private function may have been renamed as well: roles take care of it
            if len(mods) != 1:
                ok = False
                break
            targets |= mods
        if ok and len(targets) == 1:
            m2 = next(iter(targets))
            if m2 != mod and not any(k.startswith(m2 + "::") or k == m2 for k in known_paths):
                out.append((m2, mod))
    moved_mods = {a for a, _ in out}
    # (2) single items that moved
    for p, kind in KNOWN:
        if p in present:
            continue
        last = p.rsplit("::", 1)[-1]
        cands = [c for c in (free.get(last, []) if kind == "fn" else items.get(last, []))
                 if c not in known_paths and c.rsplit("::", 1)[0] not in moved_mods]
        if len(cands) == 1 and cands[0] != p:
            out.append((cands[0], p))
    return out


def _apply(facts, ren):
    """Rewrite paths in the facts (source excerpts, files and messages keep the real names)."""
    ren = [(a, c) for a, c in ren if a != c]
    if not ren:
        return facts
    text = json.dumps(facts)
    for actual, canon in sorted(ren, key=lambda x: -len(x[0])):
        text = re.sub(r"(?<![A-Za-z0-9_:])" + re.escape(actual) + r"(?![A-Za-z0-9_])", canon, text)
    new = json.loads(text)

    def restore(a, b):
        if isinstance(a, dict):
            for k, v in a.items():
                if k in ("src", "file", "msg") and isinstance(v, str):
                    b[k] = v
                elif isinstance(v, (dict, list)) and k in b:
                    restore(v, b[k])
        elif isinstance(a, list):
            for x, y in zip(a, b):
                restore(x, y)
    restore(facts, new)
    return new


def discover(facts):
    """[(actual path, canonical path)] of renamed role items (functions and types)."""
    fns = [f for f in facts["fns"] if f.get("kind") != "Closure"]
    spaths = {_short(f["path"]) for f in fns}
    adts = {a["path"]: a for a in facts["items"]["adts"]}
    impls = facts["items"]["impls"]
    by_mod = defaultdict(list)
    for f in fns:
        by_mod[_module_of(f)].append(f)
    out = []

    def pick_fn(canon, cands):
        if canon in spaths:
            return next(f for f in fns if _short(f["path"]) == canon)
        cands = [c for c in cands]
        if len(cands) == 1:
            out.append((_short(cands[0]["path"]), canon))
            return cands[0]
        return None

    def pick_ty(canon, cands):
        if canon in adts:
            return canon
        if len(cands) == 1:
            out.append((cands[0], canon))
            return cands[0]
        return None

    free = lambda f: not f.get("impl") and f.get("hir")
    # --- types.rs first: the pub(crate) shift/grow/shrink helpers of DiffOp, recognised by their net effect on the op
    # (other roles are described in terms of calls to them)
    alias = {}
    try:
        pre = _diffop_helpers(facts, fns, spaths)
        out += pre
        alias = dict(pre)
    except Exception:
        pass

    def calls(f, suffix):
        return any(alias.get(p, p).endswith(suffix) for p in _callee_paths(f))
    # --- compact.rs
    comp = [f for f in by_mod.get("algorithms::compact", []) if free(f)]
    up = pick_fn("algorithms::compact::shift_diff_ops_up", [f for f in comp if calls(f, "DiffOp::shift_left") and calls(f, "DiffOp::tag")])
    down = pick_fn("algorithms::compact::shift_diff_ops_down", [f for f in comp if calls(f, "DiffOp::shift_right") and calls(f, "DiffOp::tag")])
    if up and down:
        both = {_short(up["path"]), _short(down["path"])}
        pick_fn("algorithms::compact::cleanup_diff_ops", [f for f in comp if f is not up and f is not down and both <= _callee_paths(f)])
    # --- lcs.rs / myers.rs
    lcs = [f for f in by_mod.get("algorithms::lcs", []) if free(f)]
    pick_fn("algorithms::lcs::make_table", [f for f in lcs if "Map<" in _out(f) and "Option<" in _out(f)])
    my = [f for f in by_mod.get("algorithms::myers", []) if free(f)]
    sn = pick_fn("algorithms::myers::find_middle_snake", [f for f in my if _out(f).endswith("Option<(usize,usize)>")])
    if sn:
        pick_fn("algorithms::myers::conquer", [f for f in my if f is not sn and _short(f["path"]) in _callee_paths(f)])
    # --- text/inline.rs
    inl = [f for f in by_mod.get("text::inline", []) if f.get("hir")]

    def has_bucket_param(f):
        return any("Vec<std::vec::Vec<(bool" in (p.get("ty") or "").replace(" ", "") for p in f["hir"].get("params", []))
    pv = pick_fn("text::inline::push_values", [f for f in inl if not f.get("impl") and has_bucket_param(f) and
                                               any((p.get("ty") or "") == "bool" for p in f["hir"].get("params", []))])
    if pv:
        pvp = _short(pv["path"])
        pick_fn("text::inline::iter_inline_changes",
                [f for f in inl if not f.get("impl") and f is not pv and (pvp in _callee_paths(f) or "text::inline::push_values" in _callee_paths(f))])
    ml = pick_ty("text::inline::MultiLookup",
                 [a for a in adts if a.startswith("text::inline::") and a.count("::") == 2 and adts[a]["kind"] == "struct" and
                  any((i.get("trait") or {}).get("path") == "std::ops::Index" and (i.get("self_ty") or {}).get("path") == a for i in impls)])
    if ml:
        mlc = "text::inline::MultiLookup"
        pick_fn(mlc + "::get_original_slices",
                [f for f in inl if f.get("impl") and ((f["impl"].get("self_ty") or {}).get("path") == ml) and
                 _out(f).startswith("std::vec::Vec<(usize,")])
    # --- patience.rs
    pick_ty("algorithms::patience::Patience",
            [a for a in adts if a.startswith("algorithms::patience::") and a.count("::") == 2 and adts[a]["kind"] == "struct" and
             any((i.get("trait") or {}).get("path") == "algorithms::hook::DiffHook" and (i.get("self_ty") or {}).get("path") == a for i in impls)])
    # --- hook.rs
    pick_ty("algorithms::hook::NoFinishHook",
            [a for a in adts if a.startswith("algorithms::hook::") and a.count("::") == 2 and adts[a]["kind"] == "struct" and
             any((i.get("trait") or {}).get("path") == "algorithms::hook::DiffHook" and (i.get("self_ty") or {}).get("path") == a for i in impls)])
    # --- udiff.rs
    def two_usize(a):
        v = adts[a]["variants"]
        return len(v) == 1 and len(v[0]["fields"]) == 2 and all(f["ty_str"] == "usize" for f in v[0]["fields"])
    pick_ty("udiff::UnifiedDiffHunkRange",
            [a for a in adts if a.startswith("udiff::") and a.count("::") == 1 and adts[a]["kind"] == "struct" and two_usize(a) and
             any((i.get("trait") or {}).get("path") == "std::fmt::Display" and (i.get("self_ty") or {}).get("path") == a for i in impls)])
    # --- text/mod.rs
    cfg = [f for f in by_mod.get("text", []) if f.get("impl") and not f["impl"].get("trait") and
           (f["impl"].get("self_ty") or {}).get("path") == "text::TextDiffConfig" and f.get("hir")]
    pick_fn("text::TextDiffConfig::diff",
            [f for f in cfg if not f.get("vis_public") and
             _hir_has(f["hir"].get("body"), lambda n: n["k"] == "struct" and n.get("adt") == "text::TextDiff")])
    dl = pick_ty("text::Deadline",
                 [a for a in adts if a.startswith("text::") and a.count("::") == 1 and adts[a]["kind"] == "enum" and
                  any("Instant" in f["ty_str"] for v in adts[a]["variants"] for f in v["fields"]) and
                  any("Duration" in f["ty_str"] for v in adts[a]["variants"] for f in v["fields"])])
    if dl:
        pick_fn("text::Deadline::into_instant",
                [f for f in by_mod.get("text", []) if f.get("impl") and (f["impl"].get("self_ty") or {}).get("path") == dl and
                 _out(f).startswith("std::option::Option<") and "Instant" in _out(f)])
    # --- deadline_support.rs
    ds = [f for f in by_mod.get("deadline_support", []) if free(f)]
    ins = lambda f: [(p.get("ty") or "").replace(" ", "") for p in f["hir"].get("params", [])]
    pick_fn("deadline_support::deadline_exceeded",
            [f for f in ds if _out(f) == "bool" and len(ins(f)) == 1 and ins(f)[0].startswith("std::option::Option<") and "Instant" in ins(f)[0]])
    pick_fn("deadline_support::duration_to_deadline",
            [f for f in ds if _out(f).startswith("std::option::Option<") and "Instant" in _out(f) and len(ins(f)) == 1 and "Duration" in ins(f)[0]])
    # --- myers.rs: split_at
    pick_fn("algorithms::myers::split_at", [f for f in my if _out(f) == "(std::ops::Range<usize>,std::ops::Range<usize>)"])
    # --- udiff.rs: the missing-newline marker
    def one_bool(a):
        v = adts[a]["variants"]
        return len(v) == 1 and len(v[0]["fields"]) == 1 and v[0]["fields"][0]["ty_str"] == "bool"
    pick_ty("udiff::MissingNewlineHint",
            [a for a in adts if a.startswith("udiff::") and a.count("::") == 1 and adts[a]["kind"] == "struct" and one_bool(a) and
             any((i.get("trait") or {}).get("path") == "std::fmt::Display" and (i.get("self_ty") or {}).get("path") == a for i in impls)])
    return out


_ADJ = {
    # canonical name -> ((start sign, uses amount), (len sign, uses amount))
    "shift_left": ("-", None), "shift_right": ("+", None), "grow_left": ("-", "+"), "grow_right": (None, "+"),
    "shrink_left": (None, "-"), "shrink_right": ("+", "-"),
}


def _diffop_helpers(facts, fns, spaths):
    """Inherent `&mut self, usize` methods of DiffOp whose net effect on (start, length) is one of the six helper
    effects but whose name is not the canonical one."""
    from .facts import Program
    from . import neteffect
    missing = [n for n in _ADJ if "types::DiffOp::" + n not in spaths]
    out = []
    cands = [f for f in fns if f.get("impl") and not f["impl"].get("trait") and (f["impl"].get("self_ty") or {}).get("path") == "types::DiffOp"
             and f.get("mir") and f["mir"].get("arg_count") == 2]
    if "types::DiffOp::is_empty" not in spaths:
        be = [f for f in fns if f.get("impl") and not f["impl"].get("trait") and (f["impl"].get("self_ty") or {}).get("path") == "types::DiffOp"
              and f.get("mir") and f["mir"].get("arg_count") == 1 and _out(f) == "bool"]
        if len(be) == 1:
            out.append((_short(be[0]["path"]), "types::DiffOp::is_empty"))
    if not missing:
        return out
    tmp = dict(facts)
    tmp["_renamed"] = []
    prog = Program(tmp)
    found = {}
    for f in cands:
        sp = _short(f["path"])
        if sp.rsplit("::", 1)[-1] in _ADJ:
            continue
        fn = prog.fn(f["path"])
        if fn is None or not fn.mir:
            continue
        eff, _notes = neteffect.net_effects(prog, fn, "types::DiffOp")
        if not eff:
            continue
        def sign(fields):
            ss = set()
            for k, v in eff.items():
                if k[1] in fields:
                    for op, amt in v:
                        if op in ("+", "-") and amt == ("K", 0):
                            continue
                        ss.add(op if amt == ("P", 1) else "?")
            return None if not ss else (list(ss)[0] if len(ss) == 1 else "?")
        sig = (sign(("old_index", "new_index")), sign(("len", "old_len", "new_len")))
        for name, want in _ADJ.items():
            if name in missing and sig == want:
                found.setdefault(name, []).append(sp)
    for name, sps in found.items():
        if len(sps) == 1:
            out.append((sps[0], "types::DiffOp::" + name))
    return out


def canonicalise(facts):
    """Facts with moved / renamed role items rewritten to their canonical paths; records what was rewritten in
    facts['_renamed']."""
    done = []
    try:
        mv = [(a, c) for a, c in _moves(facts) if a != c]
        if mv:
            facts = _apply(facts, mv)
            done += mv
        ren = [(a, c) for a, c in discover(facts) if a != c]
    except Exception as e:        # never let the pre-pass break a run: the rules then see the tree as it is
        facts["_renamed"] = done + [("error", repr(e))]
        return facts
    if not ren:
        facts["_renamed"] = done
        return facts
    new = _apply(facts, ren)
    # method-call nodes carry the bare method name next to the resolved path
    last = {c: (a.rsplit("::", 1)[-1], c.rsplit("::", 1)[-1]) for a, c in ren}

    def fix_names(n):
        if isinstance(n, dict):
            m = n.get("method")
            if isinstance(m, str) and isinstance(n.get("name"), str):
                for c, (al, cl) in last.items():
                    if n["name"] == al and _short(m).endswith(c):
                        n["name"] = cl
            if isinstance(n.get("resolved"), str) and isinstance(n.get("method"), str):
                for c, (al, cl) in last.items():
                    if n["method"] == al and (_short(n.get("path") or "").endswith(c) or _short(n["resolved"]).endswith(c)):
                        n["method"] = cl
            for v in n.values():
                if isinstance(v, (dict, list)):
                    fix_names(v)
        elif isinstance(n, list):
            for v in n:
                fix_names(v)
    fix_names(new["fns"])
    new["_renamed"] = done + ren
    return new
