"""Engine A: coordinate / side / unit inference over type-checked HIR.

Almost every scalar in this crate is a `usize`, but the values live in different spaces.  Each expression
gets an abstract value:

    S(kind, side, frame)   kind  in Pos | Len | Zero | Const | Byte | Bool | Any
                           side  in O (old) | N (new) | B (both) | None
                           frame in F0 (the function's own sequence pair) | U (patience unique lists) |
                                    W (inline word lookup) | None
    R(start, end)  range        T(...) tuple     O(x) option/result    I(x) iterator   C(x) container
    M(k, v) map    Q(side, frame, elem, ranged)  indexable diff sequence
    A(path, fields) struct value   F(closure)    ANY

Seeds: DiffHook method parameters by position, parameters / fields / bindings whose *name* declares a side
(`old_range`, `new_index`, `del_old_len`, ...), accessor rows in SPEC below.  Sinks (A1..A7) are checked while
evaluating; a definite mismatch is a finding, an unresolved (Any) value at an armed sink is reported as
`undecided` (fail closed).
"""
import re
from .core import RuleResult
from .facts import short_path

HOOK = "algorithms::hook::DiffHook"
ANY = ("?",)
ABSENT = ("NA",)     # missing endpoint of a half-open range literal
BOT = None
F0 = "F0"

POS, LEN, ZERO, CONST, BYTE, BOOL = "Pos", "Len", "Zero", "Const", "Byte", "Bool"


def S(kind, side=None, frame=None, of=None):
    return ("S", kind, side, frame, of)


def R(a, b):
    return ("R", a, b)


def T(*xs):
    return ("T", tuple(xs))


def O(x):
    return ("O", x)


def I(x):
    return ("I", x)


def C(x):
    return ("C", x)


def M(k, v):
    return ("M", k, v)


def Q(side, frame, elem=ANY, ranged=False):
    return ("Q", side, frame, elem, ranged)


def A(path, fields):
    return ("A", path, tuple(sorted(fields.items())))


def is_s(av):
    return isinstance(av, tuple) and av and av[0] == "S"


def kind(av):
    return av[1] if is_s(av) else None


def a_fields(av):
    return dict(av[2]) if isinstance(av, tuple) and av and av[0] == "A" else {}


def show(av, d=0):
    if av is None:
        return "_"
    if av == ANY:
        return "?"
    t = av[0]
    if t == "S" and av[1] == BYTE:
        return "Byte" + (("(" + av[3] + ")") if av[3] else "")
    if t == "S":
        s = av[1]
        if av[2] or av[3]:
            s += "(%s%s)" % (av[2] or "-", ("," + av[3]) if av[3] and av[3] != F0 else "")
        return s
    if d > 3:
        return t + "…"
    if t == "R":
        return "%s..%s" % (show(av[1], d + 1), show(av[2], d + 1))
    if t == "T":
        return "(%s)" % ", ".join(show(x, d + 1) for x in av[1])
    if t == "O":
        return "Option<%s>" % show(av[1], d + 1)
    if t == "I":
        return "Iter<%s>" % show(av[1], d + 1)
    if t == "C":
        return "[%s]" % show(av[1], d + 1)
    if t == "M":
        return "Map<%s, %s>" % (show(av[1], d + 1), show(av[2], d + 1))
    if t == "Q":
        return "Seq(%s%s%s)" % (av[1] or "-", ("," + av[2]) if av[2] and av[2] != F0 else "", ",ranged" if av[4] else "")
    if t == "A":
        return "%s{%s}" % (av[1].rsplit("::", 1)[-1], ", ".join("%s: %s" % (k, show(v, d + 1)) for k, v in av[2]))
    if t == "F":
        return "closure"
    return str(av)


# ------------------------------------------------------------------ sides from names
SIDE_RE = re.compile(r"(?:^|_)(old|new)(?:_|$)")


def name_side(name):
    if not name:
        return None
    hits = set(SIDE_RE.findall(name))
    if hits == {"old"}:
        return "O"
    if hits == {"new"}:
        return "N"
    return None


def name_kind(name, ty):
    """Kind a binding/field name declares, given its type string."""
    if not name:
        return None
    n = name
    if re.search(r"(_len|^len)$", n):
        return LEN
    if re.search(r"(_index|_idx|_start|_end|_current|_i|_pos)$", n) or n in ("old", "new"):
        return POS
    return None


def sides_of(av, acc=None, depth=0):
    """Definite sides mentioned by a value (Pos/Len scalars and sequences)."""
    acc = set() if acc is None else acc
    if not isinstance(av, tuple) or depth > 6:
        return acc
    t = av[0]
    if t == "S":
        if av[2] in ("O", "N") and av[1] in (POS, LEN):
            acc.add(av[2])
    elif t == "Q":
        if av[1] in ("O", "N"):
            acc.add(av[1])
    elif t in ("R",):
        sides_of(av[1], acc, depth + 1)
        sides_of(av[2], acc, depth + 1)
    elif t == "T":
        for x in av[1]:
            sides_of(x, acc, depth + 1)
    elif t in ("O", "I", "C"):
        sides_of(av[1], acc, depth + 1)
    elif t == "M":
        sides_of(av[1], acc, depth + 1)
        sides_of(av[2], acc, depth + 1)
    elif t == "A":
        for k, v in av[2]:
            sides_of(v, acc, depth + 1)
    return acc


def frames_of(av, acc=None, depth=0):
    acc = set() if acc is None else acc
    if not isinstance(av, tuple) or depth > 6:
        return acc
    t = av[0]
    if t == "S":
        if av[3] and av[1] == POS:
            acc.add(av[3])
    elif t == "Q":
        if av[2]:
            acc.add(av[2])
    elif t == "R":
        frames_of(av[1], acc, depth + 1)
        frames_of(av[2], acc, depth + 1)
    elif t == "T":
        for x in av[1]:
            frames_of(x, acc, depth + 1)
    elif t in ("O", "I", "C"):
        frames_of(av[1], acc, depth + 1)
    return acc


class Ctx:
    """Per-run state shared by all function evaluations of one Program."""

    def __init__(self, prog, opts=None):
        self.prog = prog
        self.opts = opts or {}
        self.max_depth = 4 if self.opts.get("tier") == "thorough" else 3
        self.findings = []      # (rule, fn, detail, msg, file, line, undecided)
        self.obligations = []   # (rule, ok, text)
        self.fields = {}        # (adt path, field) -> AV  (join of stores)
        self.field_origins = {} # (adt path, field) -> AV  (join of the stores that are not updates of the field by itself)
        self.ret_memo = {}
        self.active = set()
        self.counters = {}
        self.fkeys = set()
        self._obset = set()
        self.hook_impl_frames = {"algorithms::patience::Patience": "U"}

    def count(self, k, n=1):
        self.counters[k] = self.counters.get(k, 0) + n

    def finding(self, rule, fn, detail, msg, line, undecided=False):
        key = (rule, fn.path, detail)
        if key in self.fkeys:
            return
        self.fkeys.add(key)
        self.findings.append((rule, fn, detail, msg, line, undecided))

    def ob(self, rule, ok, text):
        k = (rule, ok, text)
        if k in self._obset:
            return
        self._obset.add(k)
        self.obligations.append(k)


def join_side(a, b):
    if a == b:
        return a, False
    if a is None:
        return b, False
    if b is None:
        return a, False
    if "M" in (a, b):
        return "M", False
    if "B" in (a, b):
        return "B", False
    return "X", True      # O vs N conflict


def join_frame(a, b):
    if a == b:
        return a, False
    if a is None:
        return b, False
    if b is None:
        return a, False
    return "X", True


def join(a, b, conflicts=None, depth=0):
    """Least upper bound; `conflicts` collects ('side'|'frame', a, b) when definite sides/frames clash."""
    if a is None:
        return b
    if b is None:
        return a
    if a == b:
        return a
    if a == ANY or b == ANY:
        return ANY
    if depth > 8:
        return ANY
    ta, tb = a[0], b[0]
    if ta == "S" and tb == "S":
        ka, kb = a[1], b[1]
        if ka == kb:
            k = ka
        elif ZERO in (ka, kb):
            k = kb if ka == ZERO else ka
        elif CONST in (ka, kb):
            o = kb if ka == CONST else ka
            k = LEN if o == LEN else (BYTE if o == BYTE else (POS if o == POS else "Any"))
        elif {ka, kb} == {LEN, BYTE}:
            k = "Any"
            if conflicts is not None:
                conflicts.append(("unit", a, b))
        else:
            k = "Any"
        side, c1 = join_side(a[2], b[2])
        frame, c2 = join_frame(a[3], b[3])
        if k == BYTE:
            frame, c2 = (a[3] if a[3] == b[3] else (a[3] or b[3] if None in (a[3], b[3]) else None)), False
        if conflicts is not None and ka == kb and (k == POS or (k == LEN and depth >= 1)):
            if c1:
                conflicts.append(("side", a, b))
            if c2 and k == POS:
                conflicts.append(("frame", a, b))
        if k == "Any":
            return ANY
        of = a[4] if a[4] == b[4] else None
        return ("S", k, side, frame, of)
    if ta != tb:
        # a range used as an iterator, option vs inner etc.: give up
        return ANY
    if ta == "R":
        return ("R", join(a[1], b[1], conflicts, depth + 1), join(a[2], b[2], conflicts, depth + 1))
    if ta == "T":
        if len(a[1]) != len(b[1]):
            return ANY
        return ("T", tuple(join(x, y, conflicts, depth + 1) for x, y in zip(a[1], b[1])))
    if ta in ("O", "I", "C"):
        return (ta, join(a[1], b[1], conflicts, depth + 1))
    if ta == "M":
        return ("M", join(a[1], b[1], conflicts, depth + 1), join(a[2], b[2], conflicts, depth + 1))
    if ta == "Q":
        side, c1 = join_side(a[1], b[1])
        frame, c2 = join_frame(a[2], b[2])
        if conflicts is not None:
            if c1:
                conflicts.append(("side", a, b))
            if c2:
                conflicts.append(("frame", a, b))
        return ("Q", side, frame, join(a[3], b[3], conflicts, depth + 1), a[4] or b[4])
    if ta == "A":
        if a[1] != b[1]:
            return ANY
        fa, fb = dict(a[2]), dict(b[2])
        out = {}
        for k in set(fa) | set(fb):
            out[k] = join(fa.get(k), fb.get(k), conflicts, depth + 1)
        return A(a[1], out)
    if ta == "F":
        return a
    return ANY


def add(a, b, op, conflicts=None):
    """Abstract + and - on scalars."""
    if a is None or b is None:
        return None
    if not is_s(a) or not is_s(b):
        if a == ANY and is_s(b) and b[1] == POS and op == "+":
            return b
        if b == ANY and is_s(a) and a[1] == POS:
            return a
        return ANY
    ka, kb = a[1], b[1]
    if ka == POS and kb == POS:
        if op == "-":
            s, c = join_side(a[2], b[2])
            f, c2 = join_frame(a[3], b[3])
            if (c or c2) and conflicts is not None:
                conflicts.append(("side" if c else "frame", a, b))
            return S(LEN, None if s == "X" else s, None)
        return ANY
    if ka == POS:
        return S(POS, a[2], a[3])
    if kb == POS:
        if op == "+":
            return S(POS, b[2], b[3])
        return ANY      # len - pos
    if BYTE in (ka, kb):
        other = kb if ka == BYTE else ka
        if other in (BYTE, CONST, ZERO):
            ma = a[3] if ka == BYTE else ("pos" if ka == ZERO else None)
            mb = b[3] if kb == BYTE else ("pos" if kb == ZERO and op == "+" else None)
            if ka == BYTE and kb == BYTE:
                if op == "+":
                    mk = "pos" if "pos" in (ma, mb) else ("len" if ma == mb == "len" else None)
                else:
                    mk = "len" if (ma == mb == "pos" or ma == mb == "len") else ("pos" if ma == "pos" and mb == "len" else None)
            else:
                mk = ma if ka == BYTE else mb
                if ka != BYTE and kb == BYTE and ka == ZERO and op == "+":
                    mk = "pos" if mb in ("len", "pos") else None
                if ka == BYTE and kb == CONST:
                    mk = ma
            return S(BYTE, None, mk)
        if conflicts is not None:
            conflicts.append(("unit", a, b))
        return ANY
    if ka in (LEN, ZERO, CONST) and kb in (LEN, ZERO, CONST):
        sa, sb = a[2], b[2]
        # a one-sided length plus/minus a both-sided (common) length is still a length of that one side
        if sa == "B" and sb in ("O", "N"):
            s = sb
        elif sb == "B" and sa in ("O", "N"):
            s = sa
        else:
            s, _ = join_side(sa, sb)
        if ka == ZERO and kb == ZERO:
            return S(ZERO)
        return S(LEN, None if s == "X" else s, None)
    return ANY


# ------------------------------------------------------------------ repository tables
# hook method parameter sorts by position (after self)
HOOK_SIG = {
    "equal": [(POS, "O"), (POS, "N"), (LEN, "B")],
    "delete": [(POS, "O"), (LEN, "O"), (POS, "N")],
    "insert": [(POS, "O"), (POS, "N"), (LEN, "N")],
    "replace": [(POS, "O"), (LEN, "O"), (POS, "N"), (LEN, "N")],
}

# struct fields by (adt, field) -> (kind, side)
FIELD_SIG = {
    ("types::DiffOp", "old_index"): (POS, "O"), ("types::DiffOp", "new_index"): (POS, "N"),
    ("types::DiffOp", "len"): (LEN, "B"), ("types::DiffOp", "old_len"): (LEN, "O"),
    ("types::DiffOp", "new_len"): (LEN, "N"),
}

# same-side rows: callee suffix -> argument positions (0-based incl. receiver) that must share a side
SAME_SIDE = {
    "utils::SliceRemapper::new": [0, 1],
    "text::inline::MultiLookup::get_original_slices": [0],
    "text::inline::push_values": [0, 3],
    "algorithms::utils::unique": [0, 1],
    "algorithms::myers::split_at": [0, 1],
}

ITEM = ("S", "Item", None, None, None)

# DiffOp helpers that move BOTH index fields (see F5): their amount must be a both-sided length
BOTH_INDEX_HELPERS = ("types::DiffOp::shift_left", "types::DiffOp::shift_right", "types::DiffOp::grow_left",
                      "types::DiffOp::shrink_right")

# parameters whose names carry no sort but whose role is fixed
PARAM_SIG = {
    ("common::group_diff_ops", "n"): S(LEN),
    ("algorithms::capture::Capture::into_grouped_ops", "n"): S(LEN),
    ("text::TextDiff::grouped_ops", "n"): S(LEN),
    ("udiff::UnifiedDiff::context_radius", "n"): S(LEN),
    ("udiff::unified_diff", "n"): S(LEN),
}


class FnEval:
    """Abstract evaluation of one function body (flow-insensitive per binding, a few passes)."""

    def __init__(self, ctx, fn, args=None, depth=0, report=True, via=None):
        self.ctx = ctx
        self.fn = fn
        self.env = {}
        self.names = {}
        self.tys = {}
        self.depth = depth
        self.report = report
        self.via = via
        self.ret = None
        self.given = args
        self.self_adt = None
        self.ranged_sides = set()
        self.closure_nodes = {}
        self.hook_frame = F0
        self.adjust = {}
        self.adjust_line = {}
        self.hints = {}          # local hir id -> set of sides of the positions it is added to

    # -------------------------------------------------------------- helpers
    def conflict_check(self, conflicts, where, line, rule="A5", sided=None):
        if not self.report:
            return
        if rule == "A5" and sided:
            self.ctx.ob("A5", not [c for c in conflicts if c[0] != "unit"],
                        "%s: %s joins %s" % (self.fn.path, where, sided))
        for kind_, a, b in conflicts:
            if kind_ == "unit":
                self.ctx.finding("A6", self.fn, "unit-mix:" + where,
                                 "byte offsets and counts are mixed in %s: %s vs %s" % (where, show(a), show(b)), line)
            else:
                self.ctx.finding(rule, self.fn, "%s-conflict:%s" % (kind_, where),
                                 "%s receives values of different %ss: %s and %s (writer and reader, or two "
                                 "writers, disagree)" % (where, kind_, show(a), show(b)), line)

    def bind(self, hid, name, av, line, ty=None, declare=False):
        """Join `av` into the binding; the binding's name may declare a side."""
        self.names[hid] = name
        if ty:
            self.tys[hid] = ty
        av = self.apply_name(name, av, line, ty or self.tys.get(hid))
        av = self.apply_byte_name(name, av)
        # a plain variable (or an if/match value) may legitimately hold an old-side value on one path and a
        # new-side value on another: the side degrades to unknown, which still fails closed at an A1-A3 sink.
        # A5 is reserved for containers / map keys (writer-reader agreement).
        old = self.env.get(hid)
        if isinstance(av, tuple) and av and av[0] in ("M",) and isinstance(old, tuple) and old and old[0] == av[0]:
            # a map is a writer/reader contract on its key slots: a clash between what was stored and what is looked
            # up is an A5 finding (reported once, on the stabilised bindings)
            conflicts = []
            new = join(old, av, conflicts)
            sided = "%s with %s" % (show(old), show(av)) if old != av else None
            self.conflict_check([c for c in conflicts if c[0] == "side"], "map `%s`" % name, line, sided=sided)
            self.env[hid] = new
            return
        self.env[hid] = _unx(join(old, av, None))

    def apply_name(self, name, av, line, ty=None):
        """A binding whose name declares a side: supply the side if the value has none; a definite
        opposite side is an A4 finding."""
        ns = name_side(name)
        if ns is None or av is None:
            return av
        got = sides_of(av)
        if got and ns not in got and not (got == {"O", "N"}):
            if self.report:
                self.ctx.finding("A4", self.fn, "name-side:%s" % name,
                                 "`%s` is bound to a value from the %s side: %s" % (
                                     name, "new" if "N" in got else "old", show(av)), line)
            return av
        if is_s(av) and av[2] is None and av[1] in (POS, LEN):
            return ("S", av[1], ns, av[3], av[4])
        return av

    def apply_byte_name(self, name, av):
        """Byte values: the binding's name says whether it is an offset or a length."""
        if is_s(av) and av[1] == BYTE and av[3] is None and name:
            if re.search(r"(_len|^len)$", name):
                return ("S", BYTE, None, "len", av[4])
            if re.search(r"(_idx|_index|_pos|_start|_end|^start|^end|^offset|_offset|^idx)$", name):
                return ("S", BYTE, None, "pos", av[4])
        return av

    def seed_for(self, name, ty, frame=F0):
        """Contract value a parameter/field declares through its name and type."""
        side = name_side(name)
        if side is None:
            return None
        t = ty or ""
        tn = t.replace("&mut ", "").replace("&", "").strip()
        tn = re.sub(r"^'\w+ ", "", tn)
        if tn == "usize":
            k = name_kind(name, t)
            if k == LEN:
                return S(LEN, side)
            if k == POS:
                return S(POS, side, frame)
            return None
        if tn.startswith("std::ops::Range<usize>"):
            return R(S(POS, side, frame), S(POS, side, frame))
        if tn.startswith("std::option::Option<usize>"):
            k = name_kind(name, "usize")
            if k == POS:
                return O(S(POS, side, frame))
            return None
        seqlike = bool(re.match(r"^[A-Z]\w*$", tn)) or tn.startswith(("[", "std::vec::Vec<", "std::borrow::Cow<")) \
            or tn in ("str",) or tn.startswith("impl std::ops::Index")
        if tn in ("D", "W", "Int", "Self"):
            seqlike = False
        concrete_seq = tn.startswith(("[", "std::vec::Vec<", "std::borrow::Cow<"))
        if seqlike and (name in ("old", "new") or re.search(r"(_slices|_lookup|_indexes|_seq)$", name) or
                        (concrete_seq and re.search(r"(_tokens|_items|_lines|_words|_chars|_values|_elements|_input|_side)$", name))):
            return Q(side, frame if not name.endswith("_indexes") else None, ITEM, False)
        return None

    # -------------------------------------------------------------- entry
    def run(self):
        fn = self.fn
        hir = fn.hir
        if not hir or not hir.get("body"):
            return ANY
        params = hir["params"]
        is_hook_impl = bool(fn.impl and fn.impl.get("trait") == HOOK) or fn.raw.get("trait_default_of") == HOOK
        own_frame = F0
        if is_hook_impl and fn.impl:
            head = _head(fn.impl.get("self_ty"))
            own_frame = self.ctx.hook_impl_frames.get(head, F0)
        if fn.impl:
            self.self_adt = _head(fn.impl.get("self_ty"))
        # which sides are ranged in this function: a caller-supplied range parameter exists
        for p in params:
            nm = p["pat"].get("name")
            if nm and p["ty"].startswith("std::ops::Range<usize>") and name_side(nm):
                self.ranged_sides.add(name_side(nm))
        for i, p in enumerate(params):
            pat = p["pat"]
            nm = pat.get("name")
            av = None
            if self.given is not None and i < len(self.given) and self.given[i] is not None:
                av = self.given[i]
            if nm == "self":
                # context mode: the receiver the caller actually passed (`self.old.anchor(i)` on a two-sided helper
                # struct) is more precise than the global per-field join
                if not (isinstance(av, tuple) and av and av[0] == "A" and av[1] == self.self_adt):
                    av = self.self_value()
            elif is_hook_impl and fn.name in HOOK_SIG and 1 <= i <= len(HOOK_SIG[fn.name]) and p["ty"] == "usize":
                k, s = HOOK_SIG[fn.name][i - 1]
                av = S(k, s, own_frame if k == POS else None)
            elif av is None and (fn.spath, nm) in PARAM_SIG:
                av = PARAM_SIG[(fn.spath, nm)]
            elif av is None:
                av = self.seed_for(nm, p["ty"])
                if av is not None and av[0] == "Q" and name_side(nm) in self.ranged_sides:
                    av = Q(av[1], av[2], av[3], True)
            if av is None:
                av = self.default_for_type(p["ty"])
            self.bind_pat(pat, av, pat.get("line", fn.line))
        body = hir["body"]
        last = None
        want_report = self.report
        self.report = False
        for _ in range(4):
            before = dict(self.env)
            self.ret = None
            last = self.ev(body)
            if self.env == before:
                break
        if want_report:
            # sinks are checked once, on the stabilised bindings
            self.report = True
            self.ret = None
            self.adjust = {}
            last = self.ev(body)
        res = join(self.ret, last)
        if want_report:
            self.check_return_side(res)
        return res if res is not None else ANY

    def check_return_side(self, res):
        """A4: a function whose name declares a side (`old_range`, `new_index`) returns positions/lengths of that side
        on every path."""
        ns = name_side(self.fn.name)
        out_ty = ((self.fn.raw.get("sig") or {}).get("output_str") or "") if isinstance(self.fn.raw.get("sig"), dict) else ""
        if ns is None or res is None:
            return
        bad = []

        def walk(v, depth=0):
            if not isinstance(v, tuple) or not v or depth > 5:
                return
            if v[0] == "S":
                if v[1] in (POS, LEN) and v[2] in ("O", "N", "X") and v[2] != ns:
                    bad.append(v)
            elif v[0] == "R":
                walk(v[1], depth + 1)
                walk(v[2], depth + 1)
            elif v[0] in ("O",):
                walk(v[1], depth + 1)
        # every tail expression separately (the join of an old-side arm and a new-side arm has no side left)
        def leaves(e, depth=0):
            while isinstance(e, dict) and e.get("k") in ("droptemps",):
                e = e["x"]
            if not isinstance(e, dict) or depth > 6:
                return []
            k = e.get("k")
            if k == "block":
                return leaves(e["b"].get("expr"), depth + 1) if e["b"].get("expr") else []
            if k == "if":
                return leaves(e["t"], depth + 1) + (leaves(e["f"], depth + 1) if e.get("f") else [])
            if k == "match":
                out = []
                for a in e["arms"]:
                    out += leaves(a["body"], depth + 1)
                return out
            return [e]
        rep, self.report = self.report, False
        try:
            for leaf in leaves(self.fn.hir["body"]):
                walk(self.ev(leaf))
        finally:
            self.report = rep
        walk(res)
        if not (isinstance(res, tuple) and res and res[0] in ("S", "R", "O")):
            return
        self.ctx.ob("A4", not bad, "%s returns %s" % (self.fn.path, show(res)))
        if bad:
            self.ctx.finding("A4", self.fn, "return-side",
                             "%s is named for the %s side but returns %s on some path (%s)" % (
                                 self.fn.name, _sn(ns), show(res),
                                 "old and new values mixed" if bad[0][2] == "X" else "a %s-side value" % _sn(bad[0][2])),
                             self.fn.line)

    def default_for_type(self, ty):
        t = (ty or "").replace("&mut ", "").replace("&", "")
        if t == "bool":
            return S(BOOL)
        return ANY

    def self_value(self):
        adt = self.self_adt
        a = self.ctx.prog.adts.get(adt) if adt else None
        if not a or a["kind"] != "struct":
            return ANY
        fields = {}
        for f in a["variants"][0]["fields"]:
            fields[f["name"]] = self.field_value(adt, f["name"], f["ty_str"])
        return A(adt, fields)

    def field_value(self, adt, name, ty_str=None):
        stored = self.ctx.fields.get((adt, name))
        seed = None
        if (adt, name) in FIELD_SIG:
            k, s = FIELD_SIG[(adt, name)]
            seed = S(k, s, F0 if k == POS else None)
        else:
            if ty_str is None:
                a = self.ctx.prog.adts.get(adt)
                if a:
                    for v in a["variants"]:
                        for f in v["fields"]:
                            if f["name"] == name:
                                ty_str = f["ty_str"]
            seed = self.seed_for(name, ty_str)
        if stored is not None and seed is not None:
            if seed[0] == "Q" and stored[0] == "Q":
                return Q(seed[1], stored[2] or seed[2], stored[3], True)
            if seed[0] == "Q":
                return Q(seed[1], seed[2] or F0, ITEM, True)
            return seed
        if seed is not None:
            if seed[0] == "Q":
                return Q(seed[1], seed[2], ITEM, True)
            return seed
        return stored

    # -------------------------------------------------------------- patterns
    def bind_pat(self, pat, av, line):
        k = pat.get("k")
        if k == "bind":
            self.bind(pat["id"], pat["name"], av, pat.get("line", line), pat.get("ty"))
            if pat.get("sub"):
                self.bind_pat(pat["sub"], av, line)
        elif k == "tuple":
            elems = av[1] if isinstance(av, tuple) and av and av[0] == "T" else None
            for i, p in enumerate(pat["pats"]):
                self.bind_pat(p, elems[i] if elems and i < len(elems) else (ANY if av is not None else None), line)
        elif k == "ref":
            self.bind_pat(pat["pat"], av, line)
        elif k == "tuplestruct":
            ctor = (pat.get("res") or {}).get("path", "")
            last = ctor.rsplit("::", 1)[-1]
            inner = None
            if last in ("Some", "Ok", "Continue"):
                inner = av[1] if isinstance(av, tuple) and av and av[0] == "O" else av
            elif last in ("Occupied", "Vacant"):
                inner = av
            else:
                inner = ANY if av is not None else None
            for p in pat["pats"]:
                self.bind_pat(p, inner, line)
        elif k == "struct":
            res = (pat.get("res") or {})
            path = res.get("path", "")
            adt = path.rsplit("::", 1)[0] if res.get("dk") == "Variant" else path
            fv = a_fields(av)
            last = path.rsplit("::", 1)[-1]
            if last in ("Some", "Ok", "Continue") and adt not in self.ctx.prog.adts:
                # lang-item patterns of the `for` / `?` desugaring: Some { 0: pat }
                inner = av[1] if isinstance(av, tuple) and av and av[0] == "O" else av
                for f in pat["fields"]:
                    self.bind_pat(f["pat"], inner, line)
                return
            if last in ("Break", "Err") and adt not in self.ctx.prog.adts:
                for f in pat["fields"]:
                    self.bind_pat(f["pat"], ANY if av is not None else None, line)
                return
            for f in pat["fields"]:
                v = fv.get(f["name"])
                if v is None:
                    if (adt, f["name"]) in FIELD_SIG:
                        kk, ss = FIELD_SIG[(adt, f["name"])]
                        v = S(kk, ss, F0 if kk == POS else None)
                    else:
                        v = self.field_value(adt, f["name"]) if adt in self.ctx.prog.adts else ANY
                self.bind_pat(f["pat"], v, line)
        elif k == "or":
            for p in pat["pats"]:
                self.bind_pat(p, av, line)
        elif k == "slice":
            el = av[1] if isinstance(av, tuple) and av and av[0] == "C" else ANY
            for p in pat["pats"]:
                self.bind_pat(p, el, line)
        # wild / expr / other: nothing to bind

    # -------------------------------------------------------------- expressions
    def ev_block(self, b):
        for st in b["stmts"]:
            if st["k"] == "let":
                init = self.ev(st["init"]) if st.get("init") else None
                if st.get("init") is not None and init is None:
                    init = ANY
                self.bind_pat(st["pat"], init, st.get("line", 0))
                self.check_presized(st)
                if st.get("els"):
                    self.ev_block(st["els"])
            else:
                self.ev(st["e"])
        if b.get("expr"):
            return self.ev(b["expr"])
        return T()

    def check_presized(self, st):
        """A4: `let old_xs = vec![e; n]` -- a per-side container is pre-sized by a length of its own side."""
        if not self.report or not st.get("init") or st["pat"].get("k") != "bind":
            return
        ns = name_side(st["pat"].get("name") or "")
        x = st["init"]
        while isinstance(x, dict) and x.get("k") in ("droptemps", "addrof", "cast"):
            x = x["x"]
        if not ns or not (isinstance(x, dict) and x.get("k") == "call" and len(x.get("args", [])) == 2):
            return
        f = x["f"]
        path = (f.get("res") or {}).get("path", "") if isinstance(f, dict) and f.get("k") == "path" else ""
        if not path.endswith("from_elem"):
            return
        n = self.ev(x["args"][1])
        if not is_s(n):
            return
        ok = not (n[2] in ("M", "X") or (n[2] in ("O", "N") and n[2] != ns))
        self.ctx.ob("A4", ok, "%s: `%s` pre-sized by %s" % (self.fn.path, st["pat"].get("name"), show(n)))
        if not ok:
            self.ctx.finding("A4", self.fn, "presized:%s" % st["pat"].get("name"),
                             "`%s` holds one entry per %s-side item but is created with %s entries (a length of the other "
                             "side, or a mixture of both sides): the surplus entries are reported as items that do not exist" % (
                                 st["pat"].get("name"), _sn(ns), show(n)), st.get("line", 0))

    def ev(self, e):
        if e is None:
            return None
        k = e["k"]
        m = getattr(self, "ev_" + k, None)
        if m is None:
            return ANY
        return m(e)

    def ev_lit(self, e):
        lit = e.get("lit", "")
        mm = re.match(r"Int\(Pu128\((\d+)\)", lit)
        if mm:
            v = int(mm.group(1))
            return S(ZERO) if v == 0 else S(CONST)
        if lit.startswith("Bool"):
            return S(BOOL)
        return ANY

    def ev_path(self, e):
        res = e.get("res", {})
        if res.get("k") == "local":
            v = self.env.get(res["id"])
            if is_s(v) and v[1] in (LEN, ZERO, CONST) and v[2] is None and res["id"] in self.__dict__.get("byte_locals", ()):
                return S(BYTE, None, "pos")
            return v
        if res.get("k") == "def":
            if res.get("dk", "").startswith("Ctor") and res.get("path", "").endswith("::None"):
                return O(None)
            return ("D", res.get("path"), res.get("dk"))
        return ANY

    def ev_block(self, e_or_b):
        # dual use: HIR `block` expression node or raw block dict
        b = e_or_b["b"] if "b" in e_or_b else e_or_b
        for st in b["stmts"]:
            if st["k"] == "let":
                init = self.ev(st["init"]) if st.get("init") else None
                if st.get("init") is not None and init is None:
                    init = ANY
                self.bind_pat(st["pat"], init, st.get("line", 0))
                self.check_presized(st)
                if st.get("els"):
                    self.ev_block(st["els"])
            else:
                self.ev(st["e"])
        if b.get("expr"):
            return self.ev(b["expr"])
        return T()

    def ev_droptemps(self, e):
        return self.ev(e["x"])

    def ev_addrof(self, e):
        return self.ev(e["x"])

    def ev_cast(self, e):
        return self.ev(e["x"])

    def ev_unary(self, e):
        v = self.ev(e["x"])
        if e["op"] == "Deref":
            return v
        if e["op"] == "Not":
            return S(BOOL) if e.get("ty") == "bool" else v
        if e["op"] == "Neg":
            return v
        return ANY

    def ev_tup(self, e):
        return T(*[self.ev(x) for x in e["es"]])

    def ev_array(self, e):
        el = None
        for x in e["es"]:
            el = join(el, self.ev(x))
        return C(el if el is not None else ANY)

    def ev_repeat(self, e):
        return C(self.ev(e["x"]))

    def ev_if(self, e):
        self.ev(e["c"])
        stack = self.__dict__.setdefault("cond_stack", [])
        stack.append(e["c"])
        try:
            a = self.ev(e["t"])
        finally:
            stack.pop()
        b = self.ev(e["f"]) if e.get("f") else None
        if e.get("ty") in ("()", "!"):
            return T()
        if e.get("f") and _ty_never(e["f"]):
            return a
        if _ty_never(e["t"]):
            return b if b is not None else ANY
        return _unx(join(a, b, None))

    def ev_letx(self, e):
        init = self.ev(e["init"])
        self.bind_pat(e["pat"], init, e["line"])
        return S(BOOL)

    def ev_loop(self, e):
        self.ev_block(e["body"])
        self.ev_block(e["body"])
        return T() if e.get("ty") in ("()", "!") else ANY

    def ev_match(self, e):
        sc = self.ev(e["scrut"])
        out = None
        known = sc[1] if (isinstance(sc, tuple) and len(sc) == 3 and sc[0] == "D" and str(sc[2]).startswith("Ctor") and
                          "Const" in str(sc[2])) else None
        for arm in e["arms"]:
            if known is not None:
                # the scrutinee is a known unit variant (a tag constant passed by the caller in context mode): arms that
                # name other variants only are dead in this context (conditional constant propagation)
                alts = _pat_variants(arm["pat"])
                if alts is not None and known not in alts:
                    continue
            self.bind_pat(arm["pat"], sc, arm["pat"].get("line", e["line"]))
            if arm.get("guard"):
                self.ev(arm["guard"])
            v = self.ev(arm["body"])
            if not _ty_never(arm["body"]):
                out = _unx(join(out, v, None))
        if e.get("ty") in ("()", "!"):
            return T()
        return out if out is not None else ANY

    def ev_ret(self, e):
        if e.get("x"):
            v = self.ev(e["x"])
            self.ret = join(self.ret, v)
        return ANY

    def ev_break(self, e):
        if e.get("x"):
            self.ev(e["x"])
        return ANY

    def ev_continue(self, e):
        return ANY

    def ev_closure(self, e):
        self.closure_nodes[e["id"]] = e
        return ("F", e["id"])

    def ev_assign(self, e):
        v = self.ev(e["r"])
        ls = _norm_src(_src_of(e["l"]))
        self._self_update = bool(ls) and ls in _norm_src(_src_of(e["r"]))
        try:
            self.store(e["l"], v, e["line"])
        finally:
            self._self_update = False
        return T()

    def note_adjust(self, e, r):
        """A8 bookkeeping: `old_range.start += <both-sided length>` must be mirrored on the new side before the two
        ranges are used together."""
        if not self.report or not (is_s(r) and r[1] == LEN and r[2] == "B"):
            return
        lhs = e["l"]
        while isinstance(lhs, dict) and lhs.get("k") in ("droptemps", "cast") or (
                isinstance(lhs, dict) and lhs.get("k") == "unary" and lhs.get("op") == "Deref"):
            lhs = lhs["x"]
        if not (isinstance(lhs, dict) and lhs.get("k") == "field" and lhs["name"] in ("start", "end")):
            return
        base = lhs["base"]
        side = path_side(base)
        if side is None:
            return
        key = (_place_name(base), lhs["name"])
        self.adjust.setdefault(key, []).append((e["op"], _norm_src(_src_of(e["r"]))))
        self.adjust_line[key] = e["line"]

    def check_lockstep(self, e, arg_exprs):
        """At a call that takes an old-side and a new-side range variable: both must carry the same adjustments."""
        if not self.report or not self.adjust:
            return
        names = {}
        for a in arg_exprs:
            x = a
            while isinstance(x, dict) and x.get("k") in ("droptemps", "addrof", "cast"):
                x = x["x"]
            if isinstance(x, dict) and x.get("k") == "mcall" and x["name"] == "clone":
                x = x["recv"]
            if isinstance(x, dict) and x.get("k") == "path" and x.get("res", {}).get("k") == "local":
                nm = x["res"]["name"]
                if (self.tys.get(x["res"]["id"]) or "").startswith("std::ops::Range<usize>") and name_side(nm):
                    names[name_side(nm)] = nm
        if set(names) != {"O", "N"}:
            return
        mirror = names["N"]
        for fld in ("start", "end"):
            a = self.adjust.get((names["O"], fld), [])
            b = self.adjust.get((names["N"], fld), [])
            ok = a == b
            self.ctx.ob("A8", ok, "%s: `%s`: %s.%s adjusted by %s, %s.%s by %s" % (
                self.fn.path, e.get("src", "")[:60], names["O"], fld, a, names["N"], fld, b))
            if not ok:
                self.ctx.finding("A8", self.fn, "lockstep:%s:%s" % (fld, _norm_src(e.get("src", ""))),
                                 "`%s` uses %s and %s together, but %s.%s has been moved by %s and %s.%s by %s: the two ranges "
                                 "are no longer stripped in lockstep" % (e.get("src", ""), names["O"], names["N"], names["O"], fld,
                                                                         a or "nothing", names["N"], fld, b or "nothing"), e["line"])

    def check_mirror(self, g, e, arg_exprs):
        """A10: when a call receives a range *literal* for the old side and one for the new side, the two
        expressions are mirror images (identical up to old<->new and to side-specific offsets)."""
        if not self.report:
            return
        params = g.hir["params"]
        lits = {}
        for i, p in enumerate(params):
            nm = p["pat"].get("name") or ""
            if i >= len(arg_exprs) or not p["ty"].startswith("std::ops::Range<usize>") or not name_side(nm):
                continue
            x = arg_exprs[i]
            while isinstance(x, dict) and x.get("k") in ("droptemps", "addrof", "cast"):
                x = x["x"]
            if isinstance(x, dict) and x.get("k") == "struct" and x.get("adt") == "std::ops::Range":
                key = re.sub(r"(?:^|_)(old|new)(?=_|$)", "", nm)
                lits.setdefault(key, {})[name_side(nm)] = x
        for key, pair in lits.items():
            if set(pair) != {"O", "N"}:
                continue
            a = self.mirror_norm(pair["O"])
            b = self.mirror_norm(pair["N"])
            ok = a == b
            self.ctx.ob("A10", ok, "%s: `%s`: old range `%s` mirrors new range `%s`" % (
                self.fn.path, e.get("src", "")[:50], pair["O"].get("src", ""), pair["N"].get("src", "")))
            if not ok:
                self.ctx.finding("A10", self.fn, "mirror:%s" % _norm_src(e.get("src", "")),
                                 "`%s` passes the old range `%s` and the new range `%s`, which are not mirror images of each "
                                 "other (normalised: %s vs %s): one side is stripped/advanced differently" % (
                                     e.get("src", ""), pair["O"].get("src", ""), pair["N"].get("src", ""), a, b), e["line"])
            if ok:
                self.check_guard_mirror(e, pair)

    def cmp_sides(self, node):
        """Sides of the locals / fields a comparison talks about (by name, by inferred sort, by what they offset)."""
        sides = set()

        def visit(n):
            if not isinstance(n, dict):
                return
            if n.get("k") == "path" and n.get("res", {}).get("k") == "local":
                rr = n["res"]
                ns = name_side(rr["name"])
                if ns:
                    sides.add(ns)
                    return
                av = self.env.get(rr["id"])
                if is_s(av) and av[2] in ("O", "N"):
                    sides.add(av[2])
                    return
                h = self.hints.get(rr["id"])
                if h and len(h) == 1:
                    sides.add(list(h)[0])
                return
            if n.get("k") == "field":
                ps = path_side(n)
                if ps:
                    sides.add(ps)
                    return
            for k, v in n.items():
                if k in ("res", "tyj", "gargs"):
                    continue
                if isinstance(v, dict):
                    visit(v)
                elif isinstance(v, list):
                    for x in v:
                        visit(x)
        visit(node)
        return sides

    def check_guard_mirror(self, e, pair):
        """A10 (guards): a call whose old and new range literals mirror each other sits under an `if` whose one-sided
        conjuncts mirror each other too (`x < n && y < m`); a bound on one side only leaves the other range unchecked."""
        stack = self.__dict__.get("cond_stack") or []
        if not stack:
            return
        cond = stack[-1]
        conj = []

        def split(n):
            while isinstance(n, dict) and n.get("k") in ("droptemps",):
                n = n["x"]
            if isinstance(n, dict) and n.get("k") == "binary" and n["op"] == "&&":
                split(n["l"])
                split(n["r"])
            else:
                conj.append(n)
        split(cond)
        buckets = {"O": [], "N": []}
        for c in conj:
            if not (isinstance(c, dict) and c.get("k") == "binary" and c["op"] in ("<", "<=", ">", ">=", "==", "!=")):
                continue
            sides = self.cmp_sides(c)
            if len(sides) == 1:
                buckets[list(sides)[0]].append(self.mirror_norm(c))
        if not buckets["O"] and not buckets["N"]:
            return
        ok = sorted(buckets["O"]) == sorted(buckets["N"])
        self.ctx.ob("A10", ok, "%s: guard of `%s`: old-side conditions %s mirror new-side conditions %s" % (
            self.fn.path, e.get("src", "")[:50], buckets["O"], buckets["N"]))
        if not ok:
            self.ctx.finding("A10", self.fn, "guard-mirror:%s" % _norm_src(e.get("src", "")),
                             "`%s` works on an old and a new range that mirror each other, but the enclosing `if %s` bounds "
                             "the two sides differently (old-side conditions %s, new-side conditions %s): one range is built "
                             "without its bound being checked" % (e.get("src", "")[:80], cond.get("src", "")[:80],
                                                                  buckets["O"], buckets["N"]), e["line"])

    def mirror_norm(self, node):
        def ren(name):
            return re.sub(r"(?i)(old|new)", "X", name)

        def go(n):
            while isinstance(n, dict) and n.get("k") in ("droptemps", "addrof", "cast") or (
                    isinstance(n, dict) and n.get("k") == "block" and not n["b"]["stmts"] and n["b"].get("expr")):
                n = n["b"]["expr"] if n.get("k") == "block" else n["x"]
            if not isinstance(n, dict):
                return "?"
            k = n.get("k")
            if k == "path":
                rr = n.get("res", {})
                if rr.get("k") == "local":
                    nm = rr["name"]
                    if name_side(nm):
                        return ren(nm)
                    av = self.env.get(rr["id"])
                    h = self.hints.get(rr["id"])
                    if (is_s(av) and av[2] in ("O", "N")) or (h and len(h) == 1):
                        return "<sided>"
                    return nm
                return rr.get("path", "?").rsplit("::", 1)[-1]
            if k == "lit":
                return n.get("src", "?")
            if k == "field":
                if not name_side(n["name"]) and not path_side(n["base"]):
                    # a side-neutral field name (`self.n`): what it holds decides, as for a local
                    rep, self.report = self.report, False
                    try:
                        av = self.ev(n)
                    finally:
                        self.report = rep
                    if is_s(av) and av[2] in ("O", "N"):
                        return "<sided>"
                return go(n["base"]) + "." + ren(n["name"])
            if k == "binary":
                return "(%s%s%s)" % (go(n["l"]), n["op"], go(n["r"]))
            if k == "mcall":
                return "%s.%s(%s)" % (go(n["recv"]), ren(n["name"]), ",".join(go(a) for a in n["args"]))
            if k == "call":
                return "%s(%s)" % (go(n["f"]), ",".join(go(a) for a in n["args"]))
            if k == "index":
                return "%s[%s]" % (go(n["base"]), go(n["idx"]))
            if k == "struct" and n.get("adt") == "std::ops::Range":
                f = {x["name"]: x["e"] for x in n["fields"]}
                return "%s..%s" % (go(f.get("start")), go(f.get("end")))
            if k == "unary":
                return "%s(%s)" % (n["op"], go(n["x"]))
            return k or "?"
        return go(node)

    def ev_assignop(self, e):
        l = self.ev(e["l"])
        r = self.ev(e["r"])
        self.note_adjust(e, r)
        op = e["op"].rstrip("=")
        conflicts = []
        v = self.arith(op, l, r, conflicts, e)
        self.conflict_check(conflicts, "`%s`" % e.get("src", op), e["line"])
        self._self_update = True
        try:
            self.store(e["l"], v, e["line"])
        finally:
            self._self_update = False
        return T()

    def store(self, lhs, v, line):
        """Join v into the place denoted by lhs."""
        k = lhs["k"]
        if k in ("droptemps", "addrof", "cast"):
            return self.store(lhs["x"], v, line)
        if k == "unary" and lhs["op"] == "Deref":
            return self.store(lhs["x"], v, line)
        if k == "path":
            res = lhs.get("res", {})
            if res.get("k") == "local":
                self.bind(res["id"], res["name"], v, line)
            return
        if k == "field":
            base = lhs["base"]
            bty = (lhs.get("base_ty") or "")
            name = lhs["name"]
            bv = self.ev(base)
            # range endpoints / struct fields of a local value
            if isinstance(bv, tuple) and bv and bv[0] == "R" and name in ("start", "end"):
                nv = R(join(bv[1], v), bv[2]) if name == "start" else R(bv[1], join(bv[2], v))
                conflicts = []
                join(bv[1] if name == "start" else bv[2], v, conflicts)
                self.conflict_check(conflicts, "range endpoint `%s`" % name, line)
                self.store(base, nv, line)
                return
            adt = _adt_of_ty(bty)
            if adt and adt in self.ctx.prog.adts:
                self.field_store(adt, name, v, line)
            if isinstance(bv, tuple) and bv and bv[0] == "A":
                f = dict(bv[2])
                f[name] = join(f.get(name), v)
                self.store(base, A(bv[1], f), line)
            elif isinstance(bv, tuple) and bv and bv[0] == "T" and name.isdigit():
                xs = list(bv[1])
                i = int(name)
                if i < len(xs):
                    xs[i] = join(xs[i], v)
                    self.store(base, ("T", tuple(xs)), line)
            return
        if k == "index":
            bv = self.ev(lhs["base"])
            self.ev(lhs["idx"])
            if isinstance(bv, tuple) and bv and bv[0] == "C":
                conflicts = []
                nv = C(join(bv[1], v, conflicts))
                sided = ("%s with %s" % (show(bv[1]), show(v))) if (bv[1] is not None and v is not None and (sides_of(bv[1]) or sides_of(v))) else None
                self.conflict_check(conflicts, "container element", line, sided=sided)
                self.store(lhs["base"], _unx(nv), line)
            return

    def field_store(self, adt, name, v, line):
        """Record a store into a struct field (global, flow-insensitive) and check its declared sort."""
        if v is None:
            return
        a = self.ctx.prog.adts.get(adt)
        ty_str = None
        if a:
            for var in a["variants"]:
                for f in var["fields"]:
                    if f["name"] == name:
                        ty_str = f["ty_str"]
        self.check_declared(adt, name, ty_str, v, line)
        # structs such as OffsetLookup / SliceRemapper / UnifiedDiffHunkRange are used for both sides: the global
        # per-field join only feeds `self.field` reads; a side clash degrades to "unknown side", not a finding
        self.ctx.fields[(adt, name)] = _unx(join(self.ctx.fields.get((adt, name)), v, None))
        if not getattr(self, "_self_update", False):
            self.ctx.field_origins[(adt, name)] = _unx(join(self.ctx.field_origins.get((adt, name)), v, None))

    def check_declared(self, adt, name, ty_str, v, line):
        """A4: a field whose name declares side/kind must receive a value of that side/kind."""
        want = None
        if (adt, name) in FIELD_SIG:
            k, s = FIELD_SIG[(adt, name)]
            want = S(k, s, F0 if k == POS else None)
        else:
            want = self.seed_for(name, ty_str)
        if want is None:
            # side-only declaration (`old: OffsetLookup`, `new: SliceRemapper`): contents must be of that side
            ns = name_side(name)
            if ns and self.report:
                got = sides_of(v)
                self.ctx.ob("A4", not (got and ns not in got), "%s: field %s.%s <- %s" % (
                    self.fn.path, adt.rsplit("::", 1)[-1], name, show(v)))
                if got and ns not in got:
                    self.ctx.finding("A4", self.fn, "field-side:%s.%s" % (adt.rsplit("::", 1)[-1], name),
                                     "field `%s.%s` is built from %s-side values: %s" % (
                                         adt.rsplit("::", 1)[-1], name, "new" if "N" in got else "old", show(v)), line)
            return
        self.expect(v, want, "A4", "field:%s.%s" % (adt.rsplit("::", 1)[-1], name),
                    "field `%s.%s`" % (adt.rsplit("::", 1)[-1], name), line)
        if self.report and is_s(want) and want[1] == LEN and want[2] == "B" and is_s(v) and v[1] == LEN and v[2] in ("O", "N"):
            self.ctx.finding("A4", self.fn, "one-sided-len:%s.%s:%s" % (adt.rsplit("::", 1)[-1], name, getattr(self, "cur_field_src", "")),
                             "field `%s.%s` is the length of a segment present on both sides but receives the length of the "
                             "%s side only (%s)" % (adt.rsplit("::", 1)[-1], name, _sn(v[2]), show(v)), line)

    # -------------------------------------------------------------- sinks
    def expect(self, got, want, rule, detail, what, line, allow_zero=False):
        """Check a value against a declared sort. Records an obligation; finding when definite mismatch or
        undecided."""
        if not self.report:
            return
        ok, why, undecided = self.compat(got, want, allow_zero)
        self.ctx.ob(rule, ok, "%s: %s <- %s (required %s)%s" % (self.fn.path, what, show(got), show(want),
                                                                "" if ok else "  <-- " + why))
        if not ok:
            tag = "undecided:" if undecided else ""
            via = (" [evaluated for the call from %s]" % self.via) if self.via else ""
            self.ctx.finding(rule, self.fn, tag + detail,
                             "%s receives %s; required %s: %s%s" % (what, show(got), show(want), why, via), line,
                             undecided=undecided)

    def compat(self, got, want, allow_zero=False):
        if want is None or want == ANY:
            return True, "", False
        if got is None or got == ANY:
            return False, "value could not be classified", True
        tw = want[0]
        if tw == "S":
            if not is_s(got):
                if got[0] == "O" and got[1] is not None:
                    return self.compat(got[1], want, allow_zero)
                return False, "not a scalar", True
            kw, sw, fw = want[1], want[2], want[3]
            kg, sg, fg = got[1], got[2], got[3]
            if kw == POS:
                if kg == ZERO:
                    if allow_zero or sw not in self.ranged_sides and not self.ranged_sides:
                        return True, "", False
                    return False, "a literal 0 is not a position of a sequence whose range is supplied by the caller " \
                                  "(the range start is missing)", False
                if kg != POS:
                    return False, "a %s is used where a position is required (range start missing?)" % kg, False
                if sw in ("O", "N") and sg in ("O", "N") and sg != sw:
                    return False, "position on the %s side where the %s side is required" % (_sn(sg), _sn(sw)), False
                if sg == "X":
                    return False, "position of mixed sides", False
                if fw and fg and fw != fg:
                    return False, "position in coordinate frame %s where frame %s is required (unique-list / word-" \
                                  "lookup index used as an original index, or vice versa)" % (fg, fw), False
                if sg is None and sw in ("O", "N"):
                    if isinstance(got[4], tuple) and got[4][:1] == ("mixed",):
                        return False, "position that is old-side on one path and new-side on another", False
                    return False, "position of unknown side", True
                return True, "", False
            if kw == LEN:
                if kg in (ZERO, CONST):
                    return True, "", False
                if kg == POS and isinstance(got[4], tuple) and got[4] and got[4][0] == "fullend":
                    sg = got[2]
                    if sw in ("O", "N") and sg in ("O", "N") and sg != sw:
                        return False, "length of the %s side where a %s-side length is required" % (_sn(sg), _sn(sw)), False
                    return True, "", False
                if kg == POS:
                    return False, "a position is used where a length is required", False
                if kg != LEN:
                    return False, "a %s is used where a length is required" % kg, False
                if sw in ("O", "N") and sg in ("O", "N") and sg != sw:
                    return False, "length of the %s side where a %s-side length is required" % (_sn(sg), _sn(sw)), False
                return True, "", False
            if kw == BYTE:
                if kg in (BYTE, ZERO):
                    return True, "", False
                return False, "a %s is used where a byte offset is required" % kg, False
            return True, "", False
        if tw == "R":
            if got[0] != "R":
                return False, "not a range", True
            for g, w in ((got[1], want[1]), (got[2], want[2])):
                if g == ABSENT:
                    continue
                ok, why, und = self.compat(g, w, allow_zero=True)
                if not ok:
                    return ok, "range endpoint: " + why, und
            return True, "", False
        if tw == "O":
            if got[0] == "O":
                if got[1] is None:
                    return True, "", False
                return self.compat(got[1], want[1], allow_zero)
            return self.compat(got, want[1], allow_zero)
        if tw == "Q":
            if got[0] != "Q":
                if got[0] == "C":
                    return True, "", False
                return False, "not a sequence", True
            if want[1] in ("O", "N") and got[1] in ("O", "N") and got[1] != want[1]:
                return False, "the %s sequence is passed where the %s sequence is required" % (_sn(got[1]), _sn(want[1])), False
            return True, "", False
        return True, "", False

    # -------------------------------------------------------------- arithmetic / comparison
    def hint_offset(self, pos_av, other_expr):
        """`Pos(s) +/- v`: the local v is an offset on side s."""
        if not (is_s(pos_av) and pos_av[1] == POS and pos_av[2] in ("O", "N")):
            return
        x = other_expr
        while isinstance(x, dict) and x.get("k") in ("droptemps", "cast", "addrof"):
            x = x["x"]
        if isinstance(x, dict) and x.get("k") == "path" and x.get("res", {}).get("k") == "local":
            self.hints.setdefault(x["res"]["id"], set()).add(pos_av[2])

    def expr_side(self, av, expr):
        """Side of a scalar: from its value, else from the offset hints of the local it names."""
        if is_s(av) and av[2] in ("O", "N") and av[1] in (POS, LEN):
            return av[2]
        x = expr
        while isinstance(x, dict) and x.get("k") in ("droptemps", "cast", "addrof"):
            x = x["x"]
        if isinstance(x, dict) and x.get("k") == "path" and x.get("res", {}).get("k") == "local":
            h = self.hints.get(x["res"]["id"])
            if h and len(h) == 1 and (av == ANY or (is_s(av) and av[1] in (LEN, ZERO, CONST) and av[2] in (None,))):
                return list(h)[0]
        return None

    def ev_binary(self, e):
        op = e["op"]
        l = self.ev(e["l"])
        r = self.ev(e["r"])
        if op in ("+", "-"):
            self.hint_offset(l, e["r"])
            if op == "+":
                self.hint_offset(r, e["l"])
        if op in ("&&", "||"):
            return S(BOOL)
        if op in ("==", "!=", "<", "<=", ">", ">="):
            self.compare_check(l, r, e)
            return S(BOOL)
        conflicts = []
        v = self.arith(op, l, r, conflicts, e)
        self.conflict_check(conflicts, "`%s`" % e.get("src", op), e["line"], rule="A7")
        return v

    def zero_based_field(self, x):
        """Side of a cursor field whose name declares a position but which only ever starts from the literal 0 and is
        otherwise updated from itself: added to a position it is an offset (seed C13h-2), not a second position."""
        from .tables import unwrap
        x = unwrap(x) if isinstance(x, dict) else x
        if not (isinstance(x, dict) and x.get("k") == "field"):
            return None
        adt = _adt_of_ty(x.get("base_ty") or "")
        o = self.ctx.field_origins.get((adt, x["name"])) if adt else None
        if is_s(o) and o[1] == ZERO:
            return name_side(x["name"])
        return None

    def arith(self, op, l, r, conflicts, e):
        if l is None or r is None:
            return None
        if op == "+" and is_s(l) and is_s(r) and l[1] == POS and r[1] == POS:
            zl, zr = self.zero_based_field(e.get("l")), self.zero_based_field(e.get("r"))
            if zr and not zl:
                r = S(LEN, zr)
            elif zl and not zr:
                l = S(LEN, zl)
        if op in ("+", "-"):
            if self.report and is_s(l) and is_s(r):
                for a, b in ((l, r), (r, l)):
                    if a[1] == POS and b[1] == LEN and a[2] in ("O", "N") and b[2] in ("O", "N") and a[2] != b[2]:
                        self.ctx.ob("A7", False, "%s: `%s` adds a %s-side length to a %s-side position" % (
                            self.fn.path, e.get("src", ""), _sn(b[2]), _sn(a[2])))
                        self.ctx.finding("A7", self.fn, "cross-side-arith:%s" % _norm_src(e.get("src", "")),
                                         "`%s` combines a %s-side position with a %s-side length (%s %s %s)" % (
                                             e.get("src", ""), _sn(a[2]), _sn(b[2]), show(l), op, show(r)), e["line"])
                        break
                    if a[1] == POS and b[1] == LEN and a[2] in ("O", "N"):
                        self.ctx.ob("A7", True, "%s: `%s`: %s %s %s" % (self.fn.path, e.get("src", ""), show(l), op, show(r)))
                        break
            return add(l, r, op, conflicts)
        if op in ("*", "/", "%", "<<", ">>", "&", "|", "^"):
            if is_s(l) and is_s(r) and l[1] in (LEN, CONST, ZERO) and r[1] in (LEN, CONST, ZERO):
                return S(LEN)
            if is_s(l) and is_s(r) and BYTE in (l[1], r[1]):
                return ANY
            return ANY
        return ANY

    def compare_check(self, l, r, e):
        if self.report and e.get("op") in ("<", "<=", ">", ">="):
            sl, sr = self.expr_side(l, e["l"]), self.expr_side(r, e["r"])
            kinds_ok = all((v == ANY) or (is_s(v) and v[1] in (LEN, ZERO, CONST)) for v in (l, r))
            both_totals = is_s(l) and is_s(r) and l[1] == LEN and r[1] == LEN and l[4] is not None and r[4] is not None
            if kinds_ok and sl and sr and not both_totals:     # comparing the total lengths of two sequences is legitimate
                self.ctx.ob("A7", sl == sr, "%s: `%s` compares a %s-side with a %s-side quantity" % (
                    self.fn.path, e.get("src", ""), _sn(sl), _sn(sr)))
                if sl != sr:
                    self.ctx.finding("A7", self.fn, "cross-side-bound:%s" % _norm_src(e.get("src", "")),
                                     "`%s` bounds a %s-side offset/length by a %s-side length (%s vs %s)" % (
                                         e.get("src", ""), _sn(sl), _sn(sr), show(l), show(r)), e["line"])
        if not self.report or not (is_s(l) and is_s(r)):
            return
        if l[1] == POS and r[1] == POS:
            bad = None
            if l[2] in ("O", "N") and r[2] in ("O", "N") and l[2] != r[2]:
                bad = "positions of different sides"
            elif l[3] and r[3] and l[3] != r[3]:
                bad = "positions of different coordinate frames"
            self.ctx.ob("A7", bad is None, "%s: compare %s with %s in `%s`" % (self.fn.path, show(l), show(r), e.get("src", "")))
            if bad:
                self.ctx.finding("A7", self.fn, "compare:%s" % _norm_src(e.get("src", "")),
                                 "`%s` compares %s: %s vs %s" % (e.get("src", ""), bad, show(l), show(r)), e["line"])

    # -------------------------------------------------------------- struct literals and fields
    def ev_struct(self, e):
        adt = e.get("adt") or ""
        vals = {}
        for f in e["fields"]:
            vals[f["name"]] = (self.ev(f["e"]), f.get("line", e["line"]))
        if adt == "std::ops::Range":
            a = vals.get("start", (ANY, 0))[0]
            b = vals.get("end", (ANY, 0))[0]
            rv = self.make_range(a, b, e)
            # `x - l .. x` and `x .. x + l` have length l whatever side x is a position of: remember the sort of l as the
            # width of the range (read by `.len()`), so that `old_tail.len()` of `end - suffix_len..end` is a common length
            w = self._range_width(e)
            if w is not None and isinstance(rv, tuple) and rv[0] == "R" and is_s(rv[2]) and rv[2][4] is None:
                rv = R(rv[1], ("S", rv[2][1], rv[2][2], rv[2][3], ("width", w)))
            return rv
        if adt == "std::ops::RangeFull":
            return ("RF",)
        if adt == "std::ops::RangeFrom":
            return R(vals.get("start", (ANY, 0))[0], ABSENT)
        if adt in ("std::ops::RangeTo", "std::ops::RangeToInclusive"):
            return R(ABSENT, vals.get("end", (ANY, 0))[0])
        if adt == "std::ops::RangeInclusive":
            return R(vals.get("start", (ANY, 0))[0], vals.get("end", (ANY, 0))[0])
        if adt == "types::Change" and self.report and "tag" in vals and "value" in vals:
            tv, vv = vals["tag"][0], vals["value"][0]
            tagname = tv[1].rsplit("::", 1)[-1] if isinstance(tv, tuple) and len(tv) == 3 and tv[0] == "D" and tv[1] else None
            if tagname in ("Equal", "Delete", "Insert") and is_s(vv) and vv[1] == "Item":
                bad_side = "N" if tagname in ("Equal", "Delete") else "O"
                ok = vv[2] != bad_side
                self.ctx.ob("A4", ok, "%s: Change{tag: %s, value: %s}" % (self.fn.path, tagname, show(vv)))
                if not ok:
                    via = (" [evaluated for the call from %s]" % self.via) if self.via else ""
                    self.ctx.finding("A4", self.fn, "change-value-side:%s" % tagname,
                                     "a %s change carries a value read from the %s sequence%s" % (
                                         tagname, _sn(vv[2]), via), e["line"])
        if adt in self.ctx.prog.adts:
            srcs = {f["name"]: _norm_src(_src_of(f["e"])) for f in e["fields"]}
            for name, (v, line) in vals.items():
                self.cur_field_src = srcs.get(name, "")
                self.field_store(adt, name, v, line)
            self.cur_field_src = ""
            self.ctx.count("struct_literals")
            return A(adt, {k: v for k, (v, _) in vals.items()})
        return ANY

    def _range_width(self, e):
        from .tables import origin, unwrap
        fe = {f["name"]: unwrap(f["e"]) for f in e["fields"]}
        st, en = fe.get("start"), fe.get("end")
        if not (isinstance(st, dict) and isinstance(en, dict)):
            return None
        lexpr = None
        if st.get("k") == "binary" and st["op"] == "-" and origin(st["l"]) == origin(en) and "?" not in origin(en):
            lexpr = st["r"]
        elif en.get("k") == "binary" and en["op"] == "+" and origin(en["l"]) == origin(st) and "?" not in origin(st):
            lexpr = en["r"]
        if lexpr is None:
            return None
        saved = self.report
        self.report = False
        try:
            w = self.ev(lexpr)
        finally:
            self.report = saved
        return w if is_s(w) and w[1] == LEN else None

    def make_range(self, a, b, e):
        # 0..x.len() over a sequence -> the full range of that sequence (positions of its side/frame)
        if is_s(a) and is_s(b) and a[1] == ZERO and b[1] == LEN and b[4] is not None:
            qside, qframe = b[4]
            p = S(POS, qside, qframe)
            # the end of a 0-based full range is also the length of the sequence (`0..n` then `r.end` used as n)
            return R(p, ("S", POS, qside, qframe, ("fullend", qside, qframe)))
        if self.report and is_s(a) and is_s(b) and a[1] == BYTE and b[1] == BYTE and a[3] and b[3]:
            ok = not (a[3] == "pos" and b[3] == "len")
            self.ctx.ob("A6", ok, "%s: byte range `%s`: %s..%s" % (self.fn.path, e.get("src", ""), a[3], b[3]))
            if not ok:
                self.ctx.finding("A6", self.fn, "byte-range-pos-len:%s" % _norm_src(e.get("src", "")),
                                 "byte range `%s` runs from an offset to a LENGTH (the end must be start + length)" % e.get("src", ""),
                                 e["line"])
        if self.report and is_s(a) and is_s(b) and a[1] == POS and b[1] == POS:
            conflicts = []
            join(a, b, conflicts)
            self.ctx.ob("A4", not conflicts, "%s: range `%s`: %s..%s" % (self.fn.path, e.get("src", ""), show(a), show(b)))
            for kind_, x, y in conflicts:
                via = (" [evaluated for the call from %s]" % self.via) if self.via else ""
                self.ctx.finding("A4", self.fn, "range-%s:%s" % (kind_, _norm_src(e.get("src", ""))),
                                 "range `%s` runs from %s to %s: endpoints of different %ss%s" % (
                                     e.get("src", ""), show(x), show(y), kind_, via), e["line"])
        return R(a, b)

    def ev_field(self, e):
        bv = self.ev(e["base"])
        name = e["name"]
        if isinstance(bv, tuple) and bv:
            if bv[0] == "R" and name in ("start", "end"):
                return bv[1] if name == "start" else bv[2]
            if bv[0] == "T" and name.isdigit():
                i = int(name)
                return bv[1][i] if i < len(bv[1]) else ANY
            if bv[0] == "A":
                f = dict(bv[2])
                if name in f and f[name] is not None:
                    return f[name]
        adt = _adt_of_ty(e.get("base_ty") or "")
        if adt and adt in self.ctx.prog.adts:
            return self.field_value(adt, name)
        return ANY

    def note_byte_index(self, idx_expr):
        """A plain counter used to index the raw bytes of a text (`raw[pos]`, `raw.get(pos + 1)`) is a byte offset."""
        hints = self.__dict__.setdefault("byte_locals", set())

        def visit(n, depth=0):
            while isinstance(n, dict) and n.get("k") in ("droptemps", "addrof", "cast"):
                n = n["x"]
            if not isinstance(n, dict) or depth > 3:
                return
            if n.get("k") == "path" and n.get("res", {}).get("k") == "local":
                hints.add(n["res"]["id"])
            elif n.get("k") == "binary" and n["op"] in ("+", "-"):
                visit(n["l"], depth + 1)
                visit(n["r"], depth + 1)
        visit(idx_expr)

    def ev_index(self, e):
        bv = self.ev(e["base"])
        iv = self.ev(e["idx"])
        bty = e.get("base_ty") or ""
        if bty.replace("&", "").replace("mut ", "").strip() in ("[u8]", "str") and not (isinstance(iv, tuple) and iv and iv[0] == "R"):
            self.note_byte_index(e["idx"])
        if bv is None:
            return None
        if iv == ("RF",):
            return bv if bv is not None else ANY
        if isinstance(bv, tuple) and bv:
            if bv[0] == "Q":
                if isinstance(iv, tuple) and iv and iv[0] == "R":
                    if iv[1] != ABSENT:
                        self.index_check(bv, iv[1], e, endpoint=True)
                    if iv[2] != ABSENT:
                        self.index_check(bv, iv[2], e, endpoint=True)
                    return bv
                self.index_check(bv, iv, e)
                if bv[3] == ITEM and bv[1] in ("O", "N"):
                    return ("S", "Item", bv[1], None, None)      # an item read from the old / new sequence
                return bv[3] if bv[3] is not None else ANY
            if bv[0] == "C":
                if isinstance(iv, tuple) and iv and iv[0] == "R":
                    return bv
                return bv[1] if bv[1] is not None else ANY
            if bv[0] == "M":
                return bv[2]
            if bv[0] == "A":
                # local struct with an Index impl over one container field (myers::V, MultiLookup)
                cs = [v for k, v in bv[2] if isinstance(v, tuple) and v and v[0] == "C"]
                if len(cs) == 1:
                    return cs[0][1]
        # byte-unit sink: slicing a str / [u8] text with a range
        if isinstance(iv, tuple) and iv and iv[0] == "R" and _is_text_ty(bty):
            self.expect(iv, R(S(BYTE), S(BYTE)), "A6", "text-slice:%s" % _norm_src(e.get("src", "")),
                        "text slice `%s`" % e.get("src", ""), e["line"])
            return S("Text")
        return ANY

    def index_check(self, q, iv, e, endpoint=False):
        """A2: index into a ranged sequence must be a position of that sequence's side and frame."""
        if not self.report:
            return
        side, frame, ranged = q[1], q[2], q[4]
        self.ctx.count("index_sites")
        if not ranged and not (side in self.ranged_sides):
            # un-ranged sequence: only a definite cross-side position is wrong
            if is_s(iv) and iv[1] == POS and iv[2] in ("O", "N") and side in ("O", "N") and iv[2] != side:
                self.ctx.ob("A2", False, "%s: `%s`" % (self.fn.path, e.get("src", "")))
                self.ctx.finding("A2", self.fn, "index-side:%s" % _norm_src(e.get("src", "")),
                                 "`%s` indexes the %s sequence with a %s-side position" % (
                                     e.get("src", ""), _sn(side), _sn(iv[2])), e["line"])
            else:
                self.ctx.ob("A2", True, "%s: `%s` index %s into un-ranged %s" % (self.fn.path, e.get("src", ""), show(iv), show(q)))
            return
        want = S(POS, side, frame)
        self.expect(iv, want, "A2", "index:%s" % _norm_src(e.get("src", "")),
                    "index of `%s` (sequence %s)" % (e.get("src", ""), show(q)), e["line"], allow_zero=False)

    # -------------------------------------------------------------- calls
    def ev_call(self, e):
        f = e["f"]
        args = e["args"]
        if f["k"] == "path":
            res = f.get("res", {})
            path = res.get("path", "")
            dk = res.get("dk", "")
            if dk.startswith("Ctor"):
                last = path.rsplit("::", 1)[-1]
                vals = [self.ev(a) for a in args]
                if last in ("Some", "Ok"):
                    return O(vals[0] if vals else ANY)
                if last in ("Err", "Break"):
                    return O(None)
                ctor_of = res.get("ctor_of", "")
                adt = ctor_of.rsplit("::", 1)[0] if dk == "Ctor(Variant, Fn)" else ctor_of
                if adt in self.ctx.prog.adts:
                    # tuple struct / variant: fields are positional
                    for i, v in enumerate(vals):
                        self.field_store(adt, str(i), v, e["line"])
                    if adt == "udiff::UnifiedDiffHunkRange" and len(vals) == 2 and self.report:
                        conflicts = []
                        join(vals[0], vals[1], conflicts)
                        self.ctx.ob("A4", not conflicts, "%s: UnifiedDiffHunkRange(%s, %s)" % (self.fn.path, show(vals[0]), show(vals[1])))
                        for kind_, x, y in conflicts:
                            self.ctx.finding("A4", self.fn, "hunkrange-%s" % kind_,
                                             "UnifiedDiffHunkRange(%s, %s): start and end of different %ss" % (show(x), show(y), kind_), e["line"])
                    return A(adt, {str(i): v for i, v in enumerate(vals)})
                if len(vals) == 1:
                    return vals[0]      # Cow::Owned(x), Box(x), Reverse(x): transparent wrappers
                return ANY
            if dk in ("Fn", "AssocFn"):
                return self.call_def(path, None, args, e, f.get("gargs"))
            if res.get("k") != "local":
                self.ev(f)
                for a in args:
                    self.ev(a)
                return ANY
        # calling a closure value or fn pointer
        fv = self.ev(f)
        if isinstance(fv, tuple) and fv and fv[0] == "D" and fv[2] in ("Fn", "AssocFn") and fv[1]:
            # a function item that reached this call as a value (`tokenize: fn(&S) -> Vec<&S>` bound to
            # DiffableStr::tokenize_lines in the caller): same as calling it by path
            trait = fv[1].rsplit("::", 1)[0] if fv[2] == "AssocFn" and fv[1].rsplit("::", 1)[0] in self.ctx.prog.traits else None
            return self.call_def(fv[1], None, args, e, trait=trait)
        vals = [self.ev(a) for a in args]
        if isinstance(fv, tuple) and fv and fv[0] == "F":
            return self.apply_closure(fv, vals)
        return ANY

    def ev_mcall(self, e):
        path = e.get("method") or ""
        return self.call_def(path, e["recv"], e["args"], e, e.get("gargs"), trait=e.get("trait"), name=e["name"])

    def apply_closure(self, fv, vals):
        if isinstance(fv, tuple) and len(fv) == 3 and fv[0] == "D" and fv[2] in ("Fn", "AssocFn") and fv[1]:
            # a named function used where a closure is expected: `opt.map(deletion)`
            g = self.ctx.prog.fn(fv[1])
            e = self.__dict__.get("_cur_e")
            if g is not None and g.hir and not g.is_derived() and e is not None:
                return self.call_local(g, list(vals), e)
            return ANY
        node = self.closure_nodes.get(fv[1]) if isinstance(fv, tuple) and fv and fv[0] == "F" else None
        if node is None:
            return ANY
        for p, v in zip(node["params"], vals):
            self.bind_pat(p, v, node["line"])
        saved = self.ret
        self.ret = None
        out = self.ev(node["body"])
        out = join(self.ret, out)
        self.ret = saved
        return out if out is not None else ANY

    def call_def(self, path, recv, args, e, gargs=None, trait=None, name=None):
        ctx = self.ctx
        line = e["line"]
        name = name or path.rsplit("::", 1)[-1]
        # ---- DiffHook method call: A1
        if trait == HOOK or (path.startswith(HOOK + "::")):
            rv = self.ev(recv) if recv is not None else None
            vals = [self.ev(a) for a in args]
            if recv is None and vals:
                vals = vals[1:]
            if name in HOOK_SIG:
                frame = self.recv_hook_frame(e, recv)
                for i, (k, s) in enumerate(HOOK_SIG[name]):
                    if i < len(vals):
                        want = S(k, s, frame if k == POS else None)
                        self.expect(vals[i], want, "A1", "hook:%s:arg%d:%s" % (name, i, _norm_src(e.get("src", ""))),
                                    "argument %d (%s %s) of `%s`" % (i + 1, _sn(s), k.lower(), e.get("src", name)), line)
                ctx.count("hook_calls")
            return O(T())
        recv_v = self.ev(recv) if recv is not None else None
        vals = [self.ev(a) for a in args]
        allv = ([recv_v] if recv is not None else []) + vals
        # ---- local functions
        g = ctx.prog.fn(path)
        if g is not None and g.hir and not g.is_derived():
            return self.call_local(g, allv, e)
        # ---- repository accessor rows that have no body in this configuration, std table
        return self.std_call(path, trait, name, recv, recv_v, vals, e)

    def recv_hook_frame(self, e, recv):
        """Coordinate frame of the sequence pair the receiving hook works on."""
        ty = (e.get("recv_ty") or "") if recv is not None else ""
        if "patience::Patience<" in ty and "NoFinishHook" not in ty.split("patience::Patience<")[0][-40:]:
            # a hook whose own pair is the unique-item lists
            return "U"
        return F0

    def call_local(self, g, allv, e):
        ctx = self.ctx
        line = e["line"]
        params = g.hir["params"]
        is_hook_impl = bool(g.impl and g.impl.get("trait") == HOOK)
        arg_exprs = ([e.get("recv")] if e.get("k") == "mcall" else []) + list(e.get("args", []))
        self.check_lockstep(e, arg_exprs)
        self.check_mirror(g, e, arg_exprs)
        if self.report and not g.public:
            pat = []
            for v in allv:
                ss = sides_of(v) if (is_s(v) or (isinstance(v, tuple) and v and v[0] in ("R", "Q"))) else set()
                pat.append(list(ss)[0] if len(ss) == 1 else None)
            if sum(1 for x in pat if x) >= 2:
                ctx.__dict__.setdefault("side_patterns", {}).setdefault(g.path, []).append(
                    (tuple(pat), self.fn, e.get("src", ""), line))
        if self.report and g.spath in BOTH_INDEX_HELPERS and len(allv) >= 2:
            v = allv[1]
            ok = is_s(v) and v[1] in (LEN, ZERO, CONST) and v[2] in ("B", None) and not (v[1] == LEN and v[2] is None and False)
            if is_s(v) and v[1] == LEN and v[2] in ("O", "N"):
                ok = False
            ctx.ob("A9", ok, "%s: `%s` moves both indices by %s" % (self.fn.path, e.get("src", ""), show(v)))
            if not ok:
                ctx.finding("A9", self.fn, "one-sided-shift:%s" % _norm_src(e.get("src", "")),
                            "`%s`: %s moves the old AND the new index of the op, but the amount %s is a length of one side "
                            "only (only a length common to both sides may shift both indices)" % (
                                e.get("src", ""), g.name, show(v)), line)
        # accessor rows (checked bodies, but a fixed result keeps callers precise)
        row = ACCESSORS.get(_strip_generics(g.path)) or ACCESSORS.get(ctx.prog.canon(g.path))
        # contract: parameters whose names declare a sort
        ev = FnEval(ctx, g, depth=self.depth + 1, report=False)
        seeds = []
        unseeded_relevant = False
        for i, p in enumerate(params):
            nm = p["pat"].get("name")
            sd = ev.seed_for(nm, p["ty"]) if nm != "self" else None
            if sd is None and (g.spath, nm) in PARAM_SIG:
                sd = PARAM_SIG[(g.spath, nm)]
            seeds.append(sd)
            if sd is None and nm != "self" and _relevant_ty(p["ty"]):
                unseeded_relevant = True
            if nm == "self" and g.impl and i < len(allv) and isinstance(allv[i], tuple) and allv[i] and \
                    allv[i][0] == "A" and allv[i][1] == _head(g.impl.get("self_ty")):
                ev.self_adt = allv[i][1]
                if allv[i] != ev.self_value():
                    unseeded_relevant = True      # the receiver is known more precisely than the global field join
        # A3: arguments against the contract, with one caller frame for the callee's F0
        frames = set()
        for i, sd in enumerate(seeds):
            if sd is None or i >= len(allv):
                continue
            got = allv[i]
            frames |= frames_of(got)
            want = _erase_frame(sd)
            if not g.public and is_s(got) and is_s(want) and want[1] == POS and got[1] == LEN and \
                    (got[2] == want[2] or got[2] in (None, "B") or want[2] is None):
                # a private helper that calls a relative offset `new_idx` (this repository does, in lcs.rs): the name
                # fixes the side, not position-vs-offset; what the offset indexes is checked inside the helper, in the
                # context of this call
                continue
            self.expect(got, want, "A3", "arg:%s:%d:%s" % (_short(g.path), i, _norm_src(e.get("src", ""))),
                        "argument `%s` of %s in `%s`" % (params[i]["pat"].get("name"), _short(g.path), e.get("src", "")), line,
                        allow_zero=False)
            # a range argument must belong to the sequence passed on the same side: Full(new) in the old slot is
            # caught by side; relative ranges are caught by kind
        if self.report and len(frames - {None}) > 1:
            ctx.ob("A3", False, "%s: call `%s` mixes frames %s" % (self.fn.path, e.get("src", ""), sorted(frames)))
            ctx.finding("A3", self.fn, "frames:%s:%s" % (_short(g.path), _norm_src(e.get("src", ""))),
                        "call `%s` passes positions/sequences of different coordinate frames %s to one sequence pair" % (
                            e.get("src", ""), sorted(f for f in frames if f)), line)
        elif self.report and seeds and any(s is not None for s in seeds):
            ctx.ob("A3", True, "%s: call `%s` frames %s" % (self.fn.path, e.get("src", ""), sorted(f for f in frames if f)))
        same = SAME_SIDE.get(_strip_generics(g.path)) or SAME_SIDE.get(g.path) or SAME_SIDE.get(ctx.prog.canon(g.path))
        if same and self.report:
            ss = set()
            arg_exprs = ([e.get("recv")] if e.get("k") == "mcall" else []) + list(e.get("args", []))
            for i in same:
                if i < len(allv):
                    got = sides_of(allv[i])
                    if not got and i < len(arg_exprs) and path_side(arg_exprs[i]):
                        got = {path_side(arg_exprs[i])}
                    ss |= got
            ok = not ({"O", "N"} <= ss)
            ctx.ob("A3", ok, "%s: `%s` arguments %s share a side: %s" % (self.fn.path, e.get("src", ""), same, sorted(ss)))
            if not ok:
                ctx.finding("A3", self.fn, "same-side:%s:%s" % (_short(g.path), _norm_src(e.get("src", ""))),
                            "`%s` combines old-side and new-side values (%s) where one side is required" % (
                                e.get("src", ""), ", ".join(show(allv[i]) for i in same if i < len(allv))), line)
        if row is not None:
            return row(self, allv, e)
        if g.name == "len" and allv and isinstance(allv[0], tuple) and allv[0] and allv[0][0] == "Q":
            q = allv[0]
            return S(LEN, q[1], None, (q[1], q[2] or F0))
        if is_hook_impl:
            return O(T())
        # result: contract mode (memoised intrinsic evaluation) or context mode
        caller_frame = (list(frames - {None}) or [F0])[0]
        if not unseeded_relevant:
            r = intrinsic_ret(ctx, g)
            return _reframe(r, caller_frame)
        if self.depth >= ctx.max_depth or (g.path, self.depth) in ctx.active:
            return ANY
        key = (g.path, repr(allv), bool(self.report))
        if key in ctx.ret_memo:
            return ctx.ret_memo[key]
        ctx.active.add((g.path, self.depth))
        try:
            given = []
            for i, p in enumerate(params):
                given.append(allv[i] if i < len(allv) and seeds[i] is None else None)
            sub = FnEval(ctx, g, args=given, depth=self.depth + 1, report=self.report,
                         via=self.via or ("%s line %d" % (self.fn.path, line)))
            r = sub.run()
        finally:
            ctx.active.discard((g.path, self.depth))
        ctx.ret_memo[key] = r
        return r

    # -------------------------------------------------------------- std / external table
    def std_call(self, path, trait, name, recv, rv, vals, e):
        self._cur_e = e
        line = e["line"]
        ty = e.get("ty") or ""
        rty = (e.get("recv_ty") or "") if recv is not None else ""
        a0 = rv if recv is not None else (vals[0] if vals else None)
        rest = vals if recv is not None else vals[1:]
        if a0 is None and (recv is not None or vals):
            return None     # receiver not known yet (bottom): do not pollute joins with Any

        def elem(v):
            if isinstance(v, tuple) and v:
                if v[0] in ("I", "C", "O"):
                    return v[1] if v[1] is not None else ANY
                if v[0] == "R":
                    return join(v[1], v[2]) if not (is_s(v[1]) and v[1][1] == ZERO) else _rel(v[2])
                if v[0] == "Q":
                    return v[3]
                if v[0] == "M":
                    return T(v[1], v[2])
            return ANY

        if path == "std::ops::Try::branch":
            return a0 if a0 is not None else ANY
        if isinstance(a0, tuple) and a0 and a0[0] == "R" and name == "len":
            if is_s(a0[2]) and isinstance(a0[2][4], tuple) and a0[2][4] and a0[2][4][0] == "width":
                return a0[2][4][1]
            ss = sides_of(a0)
            return S(LEN, list(ss)[0] if len(ss) == 1 else None)
        if path == "std::ops::FromResidual::from_residual":
            return O(None)      # the error/None path carries no coordinates (like Err(..) / None)
        # --- iterator protocol
        if path in ("std::iter::IntoIterator::into_iter",) or name in ("iter", "iter_mut", "into_iter", "drain"):
            if isinstance(a0, tuple) and a0 and a0[0] == "I":
                return a0
            return I(elem(a0))
        if trait in ("std::iter::Iterator", "std::iter::DoubleEndedIterator", "std::iter::ExactSizeIterator") or \
                path.startswith("std::iter::Iterator::") or (isinstance(a0, tuple) and a0 and a0[0] == "I" and
                                                            name in ITER_METHODS):
            it = a0 if (isinstance(a0, tuple) and a0 and a0[0] == "I") else I(elem(a0))
            el = it[1]
            if name == "next" or name == "next_back" or name == "peek" or name == "last" or name == "nth":
                return O(el)
            if name in ("rev", "peekable", "skip", "take", "step_by", "by_ref", "fuse", "copied", "cloned", "cycle"):
                return it
            if name == "zip":
                o = rest[0] if rest else ANY
                oe = o[1] if isinstance(o, tuple) and o and o[0] == "I" else elem(o)
                return I(T(el, oe))
            if name == "chain":
                o = rest[0] if rest else ANY
                oe = o[1] if isinstance(o, tuple) and o and o[0] == "I" else elem(o)
                return I(join(el, oe))
            if name == "enumerate":
                return I(T(S(LEN), el))
            if name in ("next_if", "next_if_eq"):
                if rest and name == "next_if":
                    self.apply_closure(rest[0], [el])
                return O(el)
            if name in ("take_while", "skip_while", "filter", "inspect"):
                if rest:
                    self.apply_closure(rest[0], [el])
                return it
            if name in ("all", "any", "position"):
                if rest:
                    self.apply_closure(rest[0], [el])
                return S(BOOL) if name != "position" else O(S(LEN))
            if name == "for_each":
                if rest:
                    self.apply_closure(rest[0], [el])
                return T()
            if name == "map":
                return I(self.apply_closure(rest[0], [el]) if rest else ANY)
            if name == "filter_map":
                r = self.apply_closure(rest[0], [el]) if rest else ANY
                return I(r[1] if isinstance(r, tuple) and r and r[0] == "O" and r[1] is not None else ANY)
            if name == "flat_map":
                r = self.apply_closure(rest[0], [el]) if rest else ANY
                return I(elem(r))
            if name == "scan":
                init = rest[0] if rest else ANY
                cl = rest[1] if len(rest) > 1 else None
                r = ANY
                node = self.closure_nodes.get(cl[1]) if isinstance(cl, tuple) and cl and cl[0] == "F" else None
                if node is not None:
                    # the state binding is a &mut cell: assignments through it join into the binding itself
                    for _ in range(3):
                        self.bind_pat(node["params"][0], init, node["line"])
                        self.bind_pat(node["params"][1], el, node["line"])
                        r = self.ev(node["body"])
                return I(r[1] if isinstance(r, tuple) and r and r[0] == "O" and r[1] is not None else ANY)
            if name == "count":
                return S(LEN)
            if name == "len":
                return S(LEN)
            if name == "sum":
                return el if is_s(el) and el[1] in (LEN, BYTE) else S(LEN)
            if name in ("min", "max"):
                return O(el)
            if name == "collect":
                if ty.startswith(("std::collections::HashMap", "std::collections::BTreeMap")):
                    if isinstance(el, tuple) and el and el[0] == "T" and len(el[1]) == 2:
                        return M(el[1][0], el[1][1])
                    return M(ANY, ANY)
                return C(el)
            if name in ("fold", "try_fold", "find", "find_map", "max_by_key", "min_by_key"):
                for x in rest:
                    if isinstance(x, tuple) and x and x[0] == "F":
                        self.apply_closure(x, [el, el])
                return ANY
            return ANY
        # --- ranges
        if isinstance(a0, tuple) and a0 and a0[0] == "R":
            if name == "len" or path.endswith("ExactSizeIterator::len"):
                side = None
                ss = sides_of(a0)
                if len(ss) == 1:
                    side = list(ss)[0]
                return S(LEN, side)
            if name in ("clone", "to_owned", "borrow", "as_ref"):
                return a0
            if name in ("is_empty", "contains"):
                return S(BOOL)
        # --- scalars
        if is_s(a0) and a0[1] not in ("Item", "Text"):
            if name in ("saturating_sub", "wrapping_sub"):
                return add(a0, rest[0] if rest else ANY, "-")
            if name in ("saturating_add", "wrapping_add"):
                return add(a0, rest[0] if rest else ANY, "+")
            if name == "checked_sub":
                return O(add(a0, rest[0] if rest else ANY, "-"))
            if name == "checked_add":
                return O(add(a0, rest[0] if rest else ANY, "+"))
            if name in ("min", "max"):
                conflicts = []
                y = rest[0] if rest else ANY
                if is_s(y) and a0[1] == LEN and y[1] == LEN and {a0[2], y[2]} == {"O", "N"}:
                    return S(LEN, "M")       # an explicit mixture of an old-side and a new-side length
                v = join(a0, y, conflicts)
                self.conflict_check([c for c in conflicts if is_s(c[1]) and c[1][1] == POS], "`%s`" % e.get("src", name),
                                    line, rule="A7")
                return _unx(v)
            if name in ("abs", "clone", "to_owned", "into", "borrow", "unsigned_abs"):
                return a0
            if name in ("len_utf8", "len_utf16"):
                return S(BYTE, None, "len")
            if name in ("is_whitespace", "is_ascii_whitespace", "is_alphanumeric"):
                return S(BOOL)
        if name in ("len_utf8",):
            return S(BYTE, None, "len")
        # --- options / results
        if isinstance(a0, tuple) and a0 and a0[0] == "O":
            inner = a0[1] if a0[1] is not None else ANY
            if name in ("take", "as_ref", "as_mut", "copied", "cloned", "clone", "ok", "as_deref", "or"):
                return a0
            if name in ("unwrap", "expect", "unwrap_or_default", "unwrap_unchecked"):
                return inner
            if name in ("unwrap_or",):
                return join(inner, rest[0] if rest else None) if a0[1] is not None else (rest[0] if rest else ANY)
            if name in ("unwrap_or_else",):
                d = self.apply_closure(rest[0], []) if rest else ANY
                return join(inner, d)
            if name == "map":
                return O(self.apply_closure(rest[0], [inner]) if rest else ANY)
            if name == "and_then":
                r = self.apply_closure(rest[0], [inner]) if rest else ANY
                return r if isinstance(r, tuple) and r and r[0] == "O" else O(ANY)
            if name == "map_or":
                r = self.apply_closure(rest[1], [inner]) if len(rest) > 1 else ANY
                return join(rest[0] if rest else None, r)
            if name in ("is_some", "is_none", "is_ok", "is_err"):
                return S(BOOL)
            if name in ("iter", "into_iter"):
                return I(inner)
            if name == "insert" or name == "get_or_insert":
                return inner
        # --- sequences (diff inputs)
        if isinstance(a0, tuple) and a0 and a0[0] == "Q":
            if name == "len":
                return S(LEN, a0[1], None, (a0[1], a0[2] or F0))
            if name in ("clone", "to_vec", "as_ref", "borrow", "deref", "as_slice", "to_owned", "into_owned", "as_mut"):
                return a0
            if name == "get":
                return O(a0[3])
            if name in ("iter", "into_iter"):
                return I(a0[3])
            if name == "index":
                return a0[3]
            if name in ("is_empty",):
                return S(BOOL)
            if name in ("first", "last"):
                return O(a0[3])
        # --- containers
        if isinstance(a0, tuple) and a0 and a0[0] == "C":
            el = a0[1] if a0[1] is not None else ANY
            if name == "len":
                return S(LEN, path_side(recv) if recv is not None else None)
            if name in ("push", "push_back") or (name == "insert" and len(rest) == 2):
                newel = rest[0] if name != "insert" else rest[1]
                if recv is not None and rest:
                    conflicts = []
                    join(a0[1], newel, conflicts)
                    sided = ("%s with %s" % (show(a0[1]), show(newel))) if (a0[1] is not None and newel is not None and (sides_of(a0[1]) or sides_of(newel))) else None
                    # only structured elements (tuples / ops) carry a writer-reader contract; a bare scalar list may mix sides
                    if isinstance(newel, tuple) and newel and newel[0] in ("T", "A"):
                        self.conflict_check(conflicts, "element pushed to `%s`" % _place_name(recv), line, sided=sided)
                    self.store(recv, C(newel), line)
                return T()
            if name in ("get", "get_mut", "first", "last", "first_mut", "last_mut", "pop", "split_first"):
                if name == "split_first":
                    return O(T(el, a0))
                return O(el)
            if name in ("remove", "swap_remove", "index", "index_mut"):
                return el
            if name in ("clone", "to_vec", "as_slice", "as_mut_slice", "deref", "deref_mut", "as_ref", "to_owned", "borrow"):
                return a0
            if name in ("swap", "sort", "sort_by_key", "sort_by", "reverse", "clear", "truncate", "resize_with", "reserve",
                        "sort_unstable_by_key", "dedup", "extend"):
                for x in rest:
                    if isinstance(x, tuple) and x and x[0] == "F":
                        self.apply_closure(x, [el])
                return T()
            if name in ("is_empty", "contains", "starts_with", "ends_with"):
                return S(BOOL)
        # --- maps
        if isinstance(a0, tuple) and a0 and a0[0] == "M":
            if name == "insert" and len(rest) == 2:
                if recv is not None:
                    self.store_map(recv, a0, rest[0], rest[1], line)
                return O(a0[2])
            if name in ("get", "get_mut", "remove", "contains_key"):
                if rest and recv is not None:
                    self.store_map(recv, a0, rest[0], None, line)
                return O(a0[2]) if name != "contains_key" else S(BOOL)
            if name == "entry":
                if rest and recv is not None:
                    self.store_map(recv, a0, rest[0], None, line)
                return ANY
            if name == "len":
                return S(LEN)
            if name in ("iter", "into_iter"):
                return I(T(a0[1], a0[2]))
            if name in ("keys", "into_keys"):
                return I(a0[1])
            if name in ("values", "into_values"):
                return I(a0[2])
        # --- constructors
        if path in ("std::vec::Vec::<T>::new", "std::vec::Vec::<T>::with_capacity") or path.startswith("std::vec::Vec::<T>::new"):
            return C(None)
        if path.startswith(("std::collections::HashMap::<K, V>::new", "std::collections::BTreeMap::<K, V>::new",
                            "std::collections::HashMap::<K, V, S>::new", "std::collections::BTreeMap::<K, V, A>::new")) or \
                (name == "new" and ty.startswith(("std::collections::HashMap", "std::collections::BTreeMap"))):
            return M(None, None)
        if name == "new" and ty.startswith("std::vec::Vec"):
            return C(None)
        if name in ("default",) and ty == "usize":
            return S(ZERO)
        if path == "std::ops::RangeInclusive::<Idx>::new" and len(vals) == 2:
            return R(vals[0], vals[1])
        if name == "from_elem" or path.endswith("vec::from_elem"):
            return C(vals[0] if vals else ANY)
        if path.endswith("slice::<impl [T]>::into_vec") or name == "into_vec":
            return a0 if isinstance(a0, tuple) and a0 and a0[0] == "C" else C(ANY)
        if name in ("box_new", "new") and path.startswith(("std::boxed::Box", "alloc::boxed::Box")):
            return vals[0] if vals else ANY
        # --- text (units)
        if path in ("text::abstraction::DiffableStr::len", "core::str::<impl str>::len", "std::str::<impl str>::len",
                    "std::string::String::len") or (name == "len" and _is_text_ty(rty)):
            return S(BYTE, None, "len")
        if name == "len" and ("[u8]" in rty or rty.replace("&", "").strip() in ("str", "T")):
            return S(BYTE, None, "len")
        if name == "char_indices":
            if "bstr" in path or "ByteSlice" in path:
                return I(T(S(BYTE, None, "pos"), S(BYTE, None, "pos"), S("Char")))
            return I(T(S(BYTE, None, "pos"), S("Char")))
        if name in ("grapheme_indices", "word_indices", "words_with_break_indices", "sentence_indices", "line_indices") and \
                ("bstr" in path or "ByteSlice" in path):
            # bstr's *_indices iterators: (start byte offset, end byte offset, decoded piece)
            return I(T(S(BYTE, None, "pos"), S(BYTE, None, "pos"), S("Text")))
        if name in ("grapheme_indices", "split_word_bound_indices", "unicode_word_indices", "char_indices") and \
                "unicode_segmentation" in path:
            return I(T(S(BYTE, None, "pos"), S("Text")))
        if path == "text::abstraction::DiffableStr::slice" or (name == "slice" and trait == "text::abstraction::DiffableStr"):
            want = R(S(BYTE), S(BYTE))
            if rest:
                self.expect(rest[0], want, "A6", "slice:%s" % _norm_src(e.get("src", "")),
                            "byte range of `%s`" % e.get("src", ""), line)
            return a0 if a0 is not None else ANY
        if trait == "text::abstraction::DiffableStr" and name.startswith("tokenize_"):
            side = None
            ss = sides_of(a0) if a0 is not None else set()
            if len(ss) == 1:
                side = list(ss)[0]
            return Q(side, None, ITEM, False) if side else C(S("Text"))
        if trait == "text::abstraction::DiffableStrRef" and name == "as_diffable_str":
            return a0
        if name in ("clone", "to_owned", "borrow", "as_ref", "deref", "into", "as_mut", "deref_mut", "to_vec", "as_slice",
                    "as_bytes", "as_str", "into_owned"):
            return a0 if a0 is not None else ANY
        if name == "len" and a0 == ANY:
            return S(LEN)
        if path.startswith("std::cmp::Ord::") or path.startswith("std::cmp::"):
            if name in ("max", "min") and len(vals) + (1 if recv is not None else 0) == 2:
                x, y = ([rv] + vals) if recv is not None else vals
                if is_s(x) and is_s(y) and x[1] == LEN and y[1] == LEN and {x[2], y[2]} == {"O", "N"}:
                    return S(LEN, "M")       # an explicit mixture of an old-side and a new-side length
                return join(x, y)
        if path.startswith("std::borrow::Cow"):
            return vals[0] if vals else ANY
        return ANY

    def store_map(self, recv, m, kv, vv, line):
        conflicts = []
        nk = join(m[1], kv, conflicts)
        nv = join(m[2], vv, conflicts) if vv is not None else m[2]
        sided = ("key %s with %s" % (show(m[1]), show(kv))) if (m[1] is not None and kv is not None) else None
        self.conflict_check(conflicts, "map key/value `%s`" % _norm_src(str(recv.get("res", {}).get("name", "map"))), line,
                            sided=sided)
        self.store(recv, M(nk, nv), line)


def _pat_variants(p):
    """Set of unit-variant paths a pattern matches, or None if it can match anything else (binding, wildcard, ..)."""
    if not isinstance(p, dict):
        return None
    k = p.get("k")
    if k == "ref":
        return _pat_variants(p["pat"])
    if k == "expr" and (p.get("res") or {}).get("path"):
        return {p["res"]["path"]}
    if k == "or":
        out = set()
        for x in p["pats"]:
            v = _pat_variants(x)
            if v is None:
                return None
            out |= v
        return out
    return None


def path_side(e, depth=0):
    """Side declared by the names along an access path expression (locals, fields), or None."""
    while isinstance(e, dict) and e.get("k") in ("droptemps", "addrof", "cast") or (
            isinstance(e, dict) and e.get("k") == "unary" and e.get("op") == "Deref"):
        e = e["x"]
    if not isinstance(e, dict) or depth > 8:
        return None
    k = e.get("k")
    if k == "path":
        r = e.get("res", {})
        return name_side(r.get("name")) if r.get("k") == "local" else None
    if k == "field":
        return name_side(e["name"]) or path_side(e["base"], depth + 1)
    if k == "index":
        return path_side(e["base"], depth + 1)
    if k == "mcall" and e["name"] in ("as_ref", "as_mut", "iter", "clone", "borrow", "deref", "as_slice", "to_vec"):
        return path_side(e["recv"], depth + 1)
    return None


ITER_METHODS = {"next_if", "next_if_eq", "next", "rev", "zip", "map", "filter", "filter_map", "take_while", "count", "enumerate", "collect", "sum",
                "scan", "chain", "flat_map", "step_by", "peekable", "peek", "skip", "take", "copied", "cloned", "all", "any",
                "min", "max", "last", "nth", "for_each", "fold", "by_ref", "position", "find"}


def _unx(av, depth=0):
    if not isinstance(av, tuple) or not av or depth > 6:
        return av
    t = av[0]
    if t == "S":
        # a value that was old-side on one path and new-side on another has no side -- but it is not an *unknown* value:
        # remember that it is a mixture (a position of mixed sides handed to a one-sided slot is a definite finding)
        tag = av[4]
        if av[2] == "X" and av[1] == POS and tag is None:
            tag = ("mixed",)
        return ("S", av[1], None if av[2] == "X" else av[2], None if av[3] == "X" else av[3], tag)
    if t == "R":
        return ("R", _unx(av[1], depth + 1), _unx(av[2], depth + 1))
    if t == "T":
        return ("T", tuple(_unx(x, depth + 1) for x in av[1]))
    if t in ("O", "I", "C"):
        return (t, _unx(av[1], depth + 1))
    if t == "M":
        return ("M", _unx(av[1], depth + 1), _unx(av[2], depth + 1))
    if t == "Q":
        return ("Q", None if av[1] == "X" else av[1], None if av[2] == "X" else av[2], _unx(av[3], depth + 1), av[4])
    if t == "A":
        return ("A", av[1], tuple((k, _unx(v, depth + 1)) for k, v in av[2]))
    return av


def _place_name(e):
    while isinstance(e, dict) and e.get("k") in ("droptemps", "addrof", "cast") or (
            isinstance(e, dict) and e.get("k") == "unary" and e.get("op") == "Deref"):
        e = e["x"]
    if isinstance(e, dict) and e.get("k") == "path":
        return e.get("res", {}).get("name", "?")
    if isinstance(e, dict) and e.get("k") == "field":
        return _place_name(e["base"]) + "." + e["name"]
    return "?"


def _src_of(e):
    while isinstance(e, dict) and e.get("k") in ("droptemps", "addrof", "cast"):
        e = e["x"]
    if isinstance(e, dict):
        if e.get("k") == "path":
            return e.get("res", {}).get("name", "?")
        return e.get("src", e.get("k", "?"))
    return "?"


def _rel(v):
    """Item of `0..n`: a relative index / count on the side of n."""
    if is_s(v):
        return S(LEN, v[2], None)
    return ANY


def _sn(s):
    return {"O": "old", "N": "new", "B": "both", None: "unknown", "X": "mixed"}.get(s, str(s))


def _ty_never(e):
    return isinstance(e, dict) and e.get("ty") == "!"


def _norm_src(s):
    s = re.sub(r"\s+", "", s or "")
    return s[:60]


def _short(p):
    p = re.sub(r"::<[^>]*>", "", p)
    return p


def _strip_generics(p):
    return short_path(p)


def _head(tyj):
    t = tyj
    while isinstance(t, dict) and t.get("k") in ("ref", "ptr"):
        t = t["t"]
    if isinstance(t, dict) and t.get("k") == "adt":
        return t["path"]
    return None


def _adt_of_ty(ty):
    t = ty.replace("&mut ", "").replace("&", "").strip()
    t = re.sub(r"^'\w+ ", "", t)
    m = re.match(r"^([A-Za-z_][\w:]*)", t)
    if not m:
        return None
    return m.group(1)


def _is_text_ty(ty):
    t = ty.replace("&mut ", "").replace("&", "").strip()
    t = re.sub(r"^'\w+ ", "", t)
    return t in ("str", "[u8]", "Self", "std::string::String")


def _relevant_ty(ty):
    t = (ty or "").replace("&mut ", "").replace("&", "").strip()
    t = re.sub(r"^'\w+ ", "", t)
    if t == "usize" or t.startswith("std::ops::Range<usize>") or t.startswith("std::option::Option<usize>"):
        return True
    if t.startswith("(usize"):
        return True
    if t.startswith("[") or t.startswith("std::vec::Vec<"):
        return True
    if re.match(r"^[A-Z]\w*$", t) and t not in ("D", "W", "Int"):
        return True
    return False


def _erase_frame(av):
    """Contract values are expressed in the callee's own frame; the caller may pass any single frame."""
    if not isinstance(av, tuple) or not av:
        return av
    if av[0] == "S":
        return ("S", av[1], av[2], None, av[4])
    if av[0] == "R":
        return ("R", _erase_frame(av[1]), _erase_frame(av[2]))
    if av[0] == "O":
        return ("O", _erase_frame(av[1]))
    if av[0] == "Q":
        return ("Q", av[1], None, av[3], av[4])
    return av


def _reframe(av, frame, depth=0):
    """Map the callee's F0 to the caller's frame in a returned value."""
    if frame == F0 or not isinstance(av, tuple) or not av or depth > 6:
        return av
    t = av[0]
    if t == "S":
        if av[1] == POS and av[3] == F0:
            return ("S", av[1], av[2], frame, av[4])
        return av
    if t == "R":
        return ("R", _reframe(av[1], frame, depth + 1), _reframe(av[2], frame, depth + 1))
    if t == "T":
        return ("T", tuple(_reframe(x, frame, depth + 1) for x in av[1]))
    if t in ("O", "I", "C"):
        return (t, _reframe(av[1], frame, depth + 1))
    return av


# ------------------------------------------------------------------ accessor rows
def _acc_unique(ev, allv, e):
    q = allv[0] if allv else ANY
    side = q[1] if isinstance(q, tuple) and q and q[0] == "Q" else None
    frame = q[2] if isinstance(q, tuple) and q and q[0] == "Q" else F0
    item = A("algorithms::utils::UniqueItem", {"index": S(POS, side, frame or F0), "lookup": q})
    return Q(side, "U", item, True)


def _acc_original_index(ev, allv, e):
    it = allv[0] if allv else ANY
    f = a_fields(it)
    if "index" in f and f["index"] is not None:
        return f["index"]
    return ANY


def _acc_multilookup_new(ev, allv, e):
    q = allv[0] if allv else ANY
    ss = sides_of(q)
    side = list(ss)[0] if len(ss) == 1 else None
    return Q(side, "W", ITEM, True)


def _acc_tagtuple(ev, allv, e):
    return T(ANY, R(S(POS, "O", F0), S(POS, "O", F0)), R(S(POS, "N", F0), S(POS, "N", F0)))


def _acc_range(side):
    def f(ev, allv, e):
        return R(S(POS, side, F0), S(POS, side, F0))
    return f


def _acc_seq(side, ranged):
    def f(ev, allv, e):
        return Q(side, F0, ITEM, ranged)
    return f


def _acc_len_both(ev, allv, e):
    return S(LEN, "B")


def _acc_original_slices(ev, allv, e):
    q = allv[0] if allv else ANY
    side = q[1] if isinstance(q, tuple) and q and q[0] == "Q" else None
    return C(T(S(LEN), Q(side, None, ITEM, False)))


ACCESSORS = {
    "algorithms::utils::common_prefix_len": _acc_len_both,
    "algorithms::utils::common_suffix_len": _acc_len_both,
    "text::inline::MultiLookup::get_original_slices": _acc_original_slices,
    "algorithms::utils::unique": _acc_unique,
    "algorithms::utils::UniqueItem::original_index": _acc_original_index,
    "text::inline::MultiLookup::new": _acc_multilookup_new,
    "types::DiffOp::as_tag_tuple": _acc_tagtuple,
    "types::DiffOp::old_range": _acc_range("O"),
    "types::DiffOp::new_range": _acc_range("N"),
    "algorithms::utils::IdentifyDistinct::old_range": _acc_range("O"),
    "algorithms::utils::IdentifyDistinct::new_range": _acc_range("N"),
    "algorithms::utils::IdentifyDistinct::old_lookup": _acc_seq("O", True),
    "algorithms::utils::IdentifyDistinct::new_lookup": _acc_seq("N", True),
    "text::TextDiff::old_slices": _acc_seq("O", False),
    "text::TextDiff::new_slices": _acc_seq("N", False),
}


def intrinsic_ret(ctx, g):
    key = ("intrinsic", g.path)
    if key in ctx.ret_memo:
        return ctx.ret_memo[key]
    if key in ctx.active:
        return ANY
    ctx.active.add(key)
    try:
        ev = FnEval(ctx, g, report=False)
        r = ev.run()
    finally:
        ctx.active.discard(key)
    ctx.ret_memo[key] = r
    return r


# ------------------------------------------------------------------ driver
_cache = {}

ARMED_EXCLUDE_MODULES = ("deadline_support", "text::utils")


def analyse(prog, opts=None):
    k = (id(prog), (opts or {}).get("tier"))
    if k in _cache:
        return _cache[k]
    ctx = Ctx(prog, opts)
    fns = [f for f in prog.user_fns() if f.kind != "Closure" and f.hir and f.module not in ARMED_EXCLUDE_MODULES]
    # pass 1 (silent): populate struct-field joins and return memo; pass 2: report
    for rnd in range(2):
        for fn in fns:
            FnEval(ctx, fn, report=False).run()
        ctx.ret_memo = {}
    for fn in fns:
        if not fn.public and fn.spath not in ACCESSORS and _has_unseeded_relevant_param(ctx, fn) and _is_called_locally(ctx, fn):
            # private helper whose parameters carry no sort of their own: its sinks are checked in the context of
            # every call site (context-sensitive evaluation), not in isolation
            ctx.count("helpers_checked_in_context")
            continue
        FnEval(ctx, fn, report=True).run()
    _check_side_patterns(ctx)
    _cache[k] = ctx
    return ctx


def _check_side_patterns(ctx):
    """A11: all call sites of one private function agree on which of its arguments belong to the same side.
    `max_d(old_len, new_len)` here and `max_d(old_len, old_len)` there cannot both be right."""
    for gpath, sites in sorted(getattr(ctx, "side_patterns", {}).items()):
        uniq = {}
        for pat, fn, src, line in sites:
            uniq.setdefault((pat, fn.path, _norm_src(src)), (pat, fn, src, line))
        sites = list(uniq.values())
        if len(sites) < 2:
            continue
        n = max(len(p[0]) for p in sites)
        for i in range(n):
            for j in range(i + 1, n):
                rel = {}
                for pat, fn, src, line in sites:
                    if i < len(pat) and j < len(pat) and pat[i] and pat[j]:
                        rel.setdefault(pat[i] == pat[j], []).append((fn, src, line))
                if not rel:
                    continue
                ok = len(rel) == 1
                ctx.ob("A11", ok, "%s: arguments %d and %d are %s at %d call site(s)" % (
                    gpath, i + 1, j + 1, "consistently related" if ok else "same-side at some sites, opposite-side at others",
                    sum(len(v) for v in rel.values())))
                if not ok:
                    minority = min(rel.values(), key=len)
                    fn, src, line = minority[0]
                    ctx.finding("A11", fn, "side-pattern:%s:%d:%d" % (_short(gpath), i + 1, j + 1),
                                "`%s` passes arguments %d and %d of %s from %s, while %d other call site(s) pass them from %s: "
                                "one of the two mixes up old and new" % (
                                    src[:80], i + 1, j + 1, _short(gpath),
                                    "the same side" if minority is rel.get(True) else "opposite sides",
                                    sum(len(v) for k_, v in rel.items() if v is not minority),
                                    "opposite sides" if minority is rel.get(True) else "the same side"), line)


def _has_unseeded_relevant_param(ctx, fn):
    if fn.impl and fn.impl.get("trait") == HOOK and fn.name in HOOK_SIG:
        return False
    ev = FnEval(ctx, fn, report=False)
    for p in fn.hir["params"]:
        nm = p["pat"].get("name")
        if nm == "self":
            continue
        if ev.seed_for(nm, p["ty"]) is None and (fn.spath, nm) not in PARAM_SIG and _relevant_ty(p["ty"]):
            return True
    return False


def _is_called_locally(ctx, fn):
    cache = getattr(ctx, "_called", None)
    if cache is None:
        cache = set()
        for f in ctx.prog.fn_list:
            if f.mir:
                for bb, t in f.mir.calls():
                    c = f.mir.callee(t)
                    if c and c.get("local"):
                        cache.add(c.get("resolved") or c["path"])
                    for a in t["args"]:
                        # a function item handed to a combinator (`opt.map(deletion)`) is called there
                        if a.get("k") == "const" and isinstance(a.get("fn"), dict) and a["fn"].get("local"):
                            cache.add(a["fn"]["path"])
        ctx._called = cache
    return fn.path in cache


RULE_TEXT = {
    "A1": "every argument of every DiffHook call has the slot's sort: equal(Pos old, Pos new, Len), delete(Pos old, Len "
          "old, Pos new), insert(Pos old, Pos new, Len new), replace(Pos old, Len old, Pos new, Len new), in the "
          "coordinate frame of the receiving hook; a literal or relative value is not a position of a caller-ranged "
          "sequence",
    "A2": "every index into a ranged sequence is a position of that sequence's side and coordinate frame",
    "A3": "every argument bound to a side-declaring parameter of a local function has that side and kind (range with "
          "sequence, old with old), all positions passed to one call share a coordinate frame, and helpers that take one "
          "side receive one side",
    "A4": "every struct/variant field, range literal and binding whose name declares a side receives values of that "
          "side; range endpoints share side and frame",
    "A5": "no variable, struct field, tuple slot, container element or map key receives old-side values at one site and "
          "new-side values at another (writer and reader agree)",
    "A6": "byte offsets and counts are not mixed: arguments of DiffableStr::slice and of str/[u8] range indexing are byte "
          "offsets accumulated from byte lengths",
    "A7": "no comparison, min/max or arithmetic between positions/lengths of different sides or frames (a new-side "
          "position is never advanced by an old-side length)",
    "A8": "ranges of the two sides are stripped in lockstep: whenever an old-side and a new-side range variable are passed "
          "to one call, both have been moved by the same both-sided lengths at the same ends",
    "A11": "all call sites of one private function agree on which of its arguments belong to the same side (old/new): a pair "
           "of arguments that is (old, new) at one site and (old, old) at another marks a mixed-up call",
    "A10": "range literals passed for the old and the new side of one call are mirror images of each other (identical up to "
           "old<->new and side-specific offsets): both sides are stripped and advanced alike",
    "A9": "DiffOp helpers that move both index fields (shift_left, shift_right, grow_left, shrink_right) are called only "
          "with a length common to both sides, never with the length of one side",
}


def make_rule(rid):
    def rule(prog, opts=None):
        r = RuleResult(rid, RULE_TEXT[rid])
        ctx = analyse(prog, opts)
        for rule_, ok, text in ctx.obligations:
            if rule_ == rid:
                r.instances += 1
                r.ob(ok, text)
        for rule_, fn, detail, msg, line, undecided in ctx.findings:
            if rule_ == rid:
                r.find(fn.path, detail, msg, file=fn.file, line=line, undecided=undecided)
        r.counters = dict(ctx.counters)
        return r
    rule.wants_opts = True
    return rule


rule_A1 = make_rule("A1")
rule_A2 = make_rule("A2")
rule_A3 = make_rule("A3")
rule_A4 = make_rule("A4")
rule_A5 = make_rule("A5")
rule_A6 = make_rule("A6")
rule_A7 = make_rule("A7")
rule_A8 = make_rule("A8")
rule_A9 = make_rule("A9")
rule_A10 = make_rule("A10")
rule_A11 = make_rule("A11")
