"""Engine E (part 2): cursor discipline of emission loops (MIR).

A *cursor* is a mutable usize local that occurs as an addend of the old/new position argument of an emission
(`d.delete(old_range.start + common_prefix_len + old_idx, ..)`).  Two rules:

E3  consume-advance: after an emission that consumes L items of side S at a position built from cursor c_S, the
    first thing that happens to c_S on every path is `c_S += L` (same L); reading c_S before that, or advancing
    it by something else, reports positions that do not start where the previous segment stopped.
E2  tail-flush exhaustiveness: when a function flushes the remainder of a cursor (`if c < n { emit(n - c) }`),
    every `finish` reached after the cursor was initialised is reached either through that flush or with the
    fact `!(c < n)` -- for every flushed cursor independently (old and new remainders are both consumed).
"""
import re
from .core import RuleResult
from .facts import term_str
from . import guard as G

HOOK = "algorithms::hook::DiffHook"
# method -> (old pos arg, old len arg, new pos arg, new len arg)   (argument positions incl. receiver)
SIG = {
    "equal": (1, 3, 2, 3),
    "delete": (1, 2, 3, None),
    "insert": (1, None, 2, 3),
    "replace": (1, 2, 3, 4),
}
SCOPE_MODULES = ("algorithms::myers", "algorithms::lcs", "algorithms::patience")


def lin(m, term, sign=1, acc=None, depth=0):
    """Linear form over +/-: {key: coef}; checked-arithmetic wrappers `(a + b).0` are looked through."""
    acc = {} if acc is None else acc
    t = G.strip(term)
    if not isinstance(t, tuple) or depth > 12:
        acc["?"] = acc.get("?", 0) + sign
        return acc
    if t[0] == "field" and isinstance(t[1], tuple) and t[1] and t[1][0] == "binop" and t[2] == "0":
        return lin(m, t[1], sign, acc, depth + 1)
    if t[0] == "binop" and t[1] in ("Add", "AddWithOverflow", "AddUnchecked"):
        lin(m, t[2], sign, acc, depth + 1)
        lin(m, t[3], sign, acc, depth + 1)
        return acc
    if t[0] == "binop" and t[1] in ("Sub", "SubWithOverflow", "SubUnchecked"):
        lin(m, t[2], sign, acc, depth + 1)
        lin(m, t[3], -sign, acc, depth + 1)
        return acc
    if t[0] == "const" and isinstance(t[1], int):
        if t[1]:
            acc["#"] = acc.get("#", 0) + sign * t[1]
        return acc
    k = term_str(t)
    acc[k] = acc.get(k, 0) + sign
    return acc


def norm(d):
    return {k: v for k, v in d.items() if v != 0}


def mutable_usize_locals(m, any_defs=False):
    out = {}
    for l, decl in enumerate(m.locals):
        if l <= m.arg_count or not decl.get("name") or decl["ty_str"] != "usize":
            continue
        if any_defs or len(m.defs().get(l, [])) > 1:
            out[l] = decl["name"]
    return out


def emissions(fn):
    m = fn.mir
    for bb, t in m.calls():
        c = m.callee(t)
        if c and c.get("trait") == HOOK and c.get("method") in SIG:
            yield bb, t, c["method"]


def _mentions_local(term, l):
    if isinstance(term, tuple):
        if term and term[0] == "local" and len(term) > 2 and term[2] == l:
            return True
        return any(_mentions_local(x, l) for x in term if isinstance(x, (tuple, list)))
    if isinstance(term, list):
        return any(_mentions_local(x, l) for x in term)
    return False


def _op_locals(op):
    if op.get("k") in ("copy", "move"):
        return [op["p"]["l"]] + [e["index"] for e in op["p"]["proj"] if isinstance(e, dict) and "index" in e]
    return []


def _rv_locals(rv):
    k = rv["k"]
    if k in ("use", "cast", "repeat"):
        return _op_locals(rv["op"])
    if k == "unop":
        return _op_locals(rv["x"])
    if k == "binop":
        return _op_locals(rv["l"]) + _op_locals(rv["r"])
    if k == "aggregate":
        out = []
        for o in rv["ops"]:
            out += _op_locals(o)
        return out
    if k in ("ref", "discr", "rawptr"):
        return [rv["p"]["l"]]
    return []


class CursorScan:
    def __init__(self, fn):
        self.fn = fn
        self.m = fn.mir
        self.cursors = mutable_usize_locals(self.m)

    def first_touch(self, start_bb, c, want):
        """Explore from `start_bb`; for every path classify the first touch of cursor `c`.
        Returns list of problems [(kind, line, detail)]."""
        m = self.m
        problems = []
        seen = set()
        stack = [start_bb]
        while stack:
            b = stack.pop()
            if b in seen or m.blocks[b]["cleanup"]:
                continue
            seen.add(b)
            touched = False
            stmts = m.blocks[b]["stmts"]
            for i, s in enumerate(stmts):
                if s["k"] != "assign":
                    continue
                if not s["p"]["proj"] and s["p"]["l"] == c:
                    # direct assignment to the cursor
                    inc = self.increment_of(s["rv"], c)
                    touched = True
                    if inc is None:
                        # `c = X` is fine when X equals c + L as a linear form (e.g. `old_idx = old_len`)
                        total = dict(want)
                        ck = term_str(("local", m.local_name(c), c))
                        total[ck] = total.get(ck, 0) + 1
                        if norm(lin(m, m.resolve_rvalue(s["rv"]))) != norm(total):
                            problems.append(("reassigned", s["line"], "cursor assigned `%s`" % term_str(m.resolve_rvalue(s["rv"]))))
                    elif norm(inc) != want:
                        problems.append(("wrong-advance", s["line"], "cursor advanced by %s" % _fmt(inc)))
                    break
                if c in _rv_locals(s["rv"]):
                    # a read: fine only if it is the first half of `c += X`
                    if self.is_update_read(b, i, c):
                        continue
                    touched = True
                    problems.append(("stale-read", s["line"], "cursor read before it was advanced"))
                    break
            if touched:
                continue
            t = m.blocks[b]["term"]
            if t["k"] == "call":
                used = []
                for a in t["args"]:
                    used += _op_locals(a)
                if c in used:
                    problems.append(("stale-read", t["line"], "cursor passed to `%s` before it was advanced" % t.get("src", "?")))
                    continue
            if t["k"] == "switch" and c in _op_locals(t["discr"]):
                problems.append(("stale-read", t.get("line", 0), "cursor tested before it was advanced"))
                continue
            for s_ in m.succs(b):
                stack.append(s_)
        return problems

    def is_update_read(self, b, i, c):
        """stmts[i] of block b reads c into temp t; is t only the first half of `c = t.0` (checked add)?"""
        m = self.m
        s = m.blocks[b]["stmts"][i]
        if s["p"]["proj"]:
            return False
        t = s["p"]["l"]
        if m.local_name(t) is not None:
            return False
        # follow: the temp (or its .0) must be assigned to c in this block or the assert successor
        cur = b
        for _ in range(3):
            for s2 in m.blocks[cur]["stmts"]:
                if s2["k"] == "assign" and not s2["p"]["proj"] and s2["p"]["l"] == c:
                    return t in self.temps_of(s2["rv"])
            term = m.blocks[cur]["term"]
            if term["k"] == "assert":
                cur = term["target"]
            else:
                break
        return False

    def temps_of(self, rv, depth=0):
        """Temporaries feeding an rvalue (through single-def temps)."""
        m = self.m
        out = set()
        for l in _rv_locals(rv):
            if m.local_name(l) is None and l > m.arg_count:
                out.add(l)
                if depth < 6:
                    sd = m.single_def(l)
                    if sd and sd[2] == "assign":
                        out |= self.temps_of(sd[3], depth + 1)
        return out

    def increment_of(self, rv, c):
        """If rv computes c + X return lin(X) else None."""
        m = self.m
        t = G.strip(m.resolve_rvalue(rv))
        if isinstance(t, tuple) and t and t[0] == "field" and t[2] == "0":
            t = G.strip(t[1])
        if not (isinstance(t, tuple) and t and t[0] == "binop" and t[1] in ("Add", "AddWithOverflow", "AddUnchecked")):
            return None
        a, b = G.strip(t[2]), G.strip(t[3])

        def is_c(x):
            return isinstance(x, tuple) and x and x[0] == "local" and len(x) > 2 and x[2] == c
        if is_c(a):
            return norm(lin(m, b))
        if is_c(b):
            return norm(lin(m, a))
        return None


def _fmt(d):
    d = norm(d)
    if not d:
        return "0"
    return " ".join(("%+d*%s" % (v, k)) if k != "#" else ("%+d" % v) for k, v in sorted(d.items()))


def rule_E3(prog):
    r = RuleResult("E3", "consume-advance: after an emission whose old (new) position is built from a cursor variable, "
                         "the first thing that happens to that cursor on every path is `cursor += <the emitted old (new) "
                         "length>`; the cursor is never read, tested or passed on in between")
    for fn in prog.user_fns():
        if not fn.mir or fn.module not in SCOPE_MODULES:
            continue
        sc = CursorScan(fn)
        if not sc.cursors:
            continue
        m = fn.mir
        for bb, t, meth in emissions(fn):
            op, ol, np_, nl = SIG[meth]
            for side, pi, li in (("old", op, ol), ("new", np_, nl)):
                if li is None:
                    continue
                pos = m.expand(m.resolve_operand(t["args"][pi]), depth=3)
                posl = norm(lin(m, pos))
                curs = [c for c, name in sc.cursors.items() if posl.get(term_str(("local", name, c))) == 1]
                if not curs:
                    continue
                c = curs[0]
                want = norm(lin(m, m.resolve_operand(t["args"][li])))
                r.instances += 1
                if t["target"] is None:
                    continue
                probs = sc.first_touch(t["target"], c, want)
                r.ob(not probs, "%s: `%s` (line %d) consumes %s of %s; cursor %s: %s" % (
                    fn.path, t.get("src", meth)[:70], t["line"], _fmt(want), side, sc.cursors[c],
                    "advanced by the same amount before its next use on every path" if not probs else probs[0][2]))
                for kind_, line, detail in probs[:1]:
                    r.find(fn.path, "%s:%s:%s" % (kind_, sc.cursors[c], meth),
                           "after `%s` consumed %s %s item(s), %s (cursor `%s` must first be advanced by the consumed "
                           "length): the next segment does not start where this one stopped" % (
                               t.get("src", meth), _fmt(want), side, detail, sc.cursors[c]), file=fn.file, line=line)
    return r


class MarkFlow(G.Flow):
    """Valuation flow that also records which flush emissions a path went through."""

    def __init__(self, fn, marks):
        super().__init__(fn)
        self.marks = marks      # block -> literal id

    def transfer_stmts(self, b, st):
        out = super().transfer_stmts(b, st)
        if b in self.marks:
            lit = ("emitted", self.marks[b], frozenset())
            ns = set()
            for v in out:
                nv = v.add(lit, True)
                ns.add(nv if nv is not None else v)
            out = frozenset(ns)
        return out


def rule_E2(prog):
    r = RuleResult("E2", "tail-flush exhaustiveness: for every cursor whose remainder is flushed (`if c < n { emit(n - c) }`), "
                         "each `finish` reached after the cursor's initialisation is reached through that flush or with the "
                         "fact !(c < n); the old and the new remainder are flushed independently")
    for fn in prog.user_fns():
        if not fn.mir or fn.module not in SCOPE_MODULES:
            continue
        sc = CursorScan(fn)
        # a remainder may also be flushed from a position a helper returned (`let (old_pos, new_pos) = walk(..)?`):
        # any named usize local can be the `c` of a guarded `emit(n - c)`
        sc.cursors = mutable_usize_locals(fn.mir, any_defs=True)
        if not sc.cursors:
            continue
        m = fn.mir
        base = G.Flow(fn)
        base.run()
        flushes = []     # (block, cursor local, bound key, method)
        range_flushes = []   # (block, range local, range key, method)
        for bb, t, meth in emissions(fn):
            op, ol, np_, nl = SIG[meth]
            for li in (ol, nl):
                if li is None:
                    continue
                term = m.resolve_operand(t["args"][li])
                d = norm(lin(m, term))
                neg = [k for k, v in d.items() if v == -1]
                posk = [k for k, v in d.items() if v == 1]
                if len(neg) == 1 and len(posk) == 1 and len(d) == 2:
                    curs = [c for c, name in sc.cursors.items() if term_str(("local", name, c)) == neg[0]]
                    if curs:
                        st = base.instate.get(bb)
                        guarded = bool(st) and all(v.has(("lt", neg[0], posk[0]), True) for v in st)
                        if guarded:
                            flushes.append((bb, curs[0], posk[0], meth))
                # the same flush written over a range: `let rest = base + c..base + n; if !rest.is_empty() { emit(rest.len()) }`
                ts = G.strip(term)
                if isinstance(ts, tuple) and ts and ts[0] == "call" and (
                        ts[1].endswith("ExactSizeIterator::len") or ts[1].endswith("Range::<usize>::len")) and ts[2]:
                    a = G.strip(ts[2][0])
                    rl = sorted(G.roots(a))
                    if len(rl) == 1 and isinstance(a, tuple) and a[0] == "local" and rl[0] > m.arg_count and m.single_def(rl[0]):
                        ka = G.key(a)
                        st = base.instate.get(bb)
                        if bool(st) and all(v.has(("empty", ka), False) for v in st):
                            range_flushes.append((bb, rl[0], ka, meth))
        if not flushes and not range_flushes:
            continue
        marks = {bb: i for i, (bb, c, n, meth) in enumerate(flushes)}
        for j, (bb, rloc, ka, meth) in enumerate(range_flushes):
            marks[bb] = len(flushes) + j
        fl = MarkFlow(fn, marks)
        fl.protect = set()
        for (fb, c, nkey, meth) in flushes:
            fl.protect.add(("lt", term_str(("local", sc.cursors[c], c)), nkey))
        for (fb, rloc, ka, meth) in range_flushes:
            fl.protect.add(("empty", ka))
        fl.run()
        fins = [(bb, t) for bb, t in m.calls() if (m.callee(t) or {}).get("trait") == HOOK and m.callee(t).get("method") == "finish"]
        todo = []   # (mark id, flush block, first init block, label of the cursor/range, text of the remainder, fact that shows it empty, method)
        for i, (fb, c, nkey, meth) in enumerate(flushes):
            cname = sc.cursors[c]
            ckey = term_str(("local", cname, c))
            init_blocks = [d[0] for d in m.defs().get(c, [])]
            todo.append((i, fb, min(init_blocks) if init_blocks else 0, cname, "%s - %s" % (nkey, cname), (("lt", ckey, nkey), False), meth))
        for j, (fb, rloc, ka, meth) in enumerate(range_flushes):
            todo.append((len(flushes) + j, fb, m.single_def(rloc)[0], m.local_name(rloc) or ka, "%s.len()" % ka, (("empty", ka), True), meth))
        for i, fb, first_init, cname, remainder, (fact, fpol), meth in todo:
            nkey = remainder
            for bb, t in fins:
                if not m.dominates(first_init, bb):
                    continue
                r.instances += 1
                st = fl.instate.get(bb)
                if st is None:
                    continue
                bad = None
                for v in st:
                    if v.has(("emitted", i), True) or v.has(fact, fpol):
                        continue
                    bad = v
                    break
                r.ob(bad is None, "%s: finish (line %d): remainder %s is flushed by `%s` or known empty on every path: %s" % (
                    fn.path, t["line"], remainder, meth, bad is None))
                if bad is not None:
                    facts = sorted(("%s%s" % ("" if p else "!", G._lit_s(l) if l[0] != "emitted" else "flush#%d" % l[1])) for l, p in bad.lits)
                    r.find(fn.path, "unflushed:%s" % cname,
                           "finish is reachable (line %d) on a path where the remainder `%s` was neither flushed by "
                           "`%s` nor shown empty (facts on that path: %s): part of the %s range is never reported" % (
                               t["line"], remainder, meth, ", ".join(facts) or "none",
                               "old" if meth == "delete" else "new"), file=fn.file, line=m.blocks[fb]["term"]["line"])
    return r


def rule_E5(prog):
    r = RuleResult("E5", "one cursor, one origin: every hook-call position that is built from a cursor variable adds the same "
                         "base to it (`range.start + common_prefix_len + cursor` everywhere); a call site that drops or adds a "
                         "term reports a position in another coordinate system than its siblings")
    from collections import Counter
    for fn in prog.user_fns():
        if not fn.mir or fn.module not in SCOPE_MODULES:
            continue
        sc = CursorScan(fn)
        if not sc.cursors:
            continue
        m = fn.mir
        forms = {}       # cursor -> [(base form, line, src)]
        for bb, t, meth in emissions(fn):
            op, ol, np_, nl = SIG[meth]
            for pi in (op, np_):
                if pi is None or pi >= len(t["args"]):
                    continue
                pos = m.expand(m.resolve_operand(t["args"][pi]), depth=3)
                posl = norm(lin(m, pos))
                for c, name in sc.cursors.items():
                    ck = term_str(("local", name, c))
                    if posl.get(ck) == 1:
                        base = tuple(sorted((k, v) for k, v in posl.items() if k not in (ck, "#")))
                        forms.setdefault(c, []).append((base, t["line"], t.get("src", meth)))
        for c, lst in forms.items():
            if len(lst) < 2:
                continue
            r.instances += 1
            cnt = Counter(b for b, _, _ in lst)
            ok = len(cnt) == 1
            r.ob(ok, "%s: cursor %s is offset by %s at %d call site(s)" % (
                fn.path, sc.cursors[c], [_fmt(dict(b)) for b in cnt], len(lst)))
            if not ok:
                common = cnt.most_common(1)[0][0]
                for b, line, src in lst:
                    if b != common:
                        r.find(fn.path, "cursor-base:%s" % sc.cursors[c],
                               "`%s` builds a position as %s + %s, while the other %d call site(s) of this function use %s + %s" % (
                                   src[:80], _fmt(dict(b)) or "0", sc.cursors[c], cnt[common], _fmt(dict(common)) or "0",
                                   sc.cursors[c]), file=fn.file, line=line)
                        break
    return r


def rule_E6(prog):
    r = RuleResult("E6", "no stale position snapshot: a local computed from a cursor (`let rest = base + old_idx`) is not used as "
                         "the position of a hook call that can be reached, without re-computing the local, after another hook "
                         "call consumed items of that cursor's side")
    for fn in prog.user_fns():
        if not fn.mir or fn.module not in SCOPE_MODULES:
            continue
        sc = CursorScan(fn)
        if not sc.cursors:
            continue
        m = fn.mir
        ems = list(emissions(fn))
        for bb2, t2, meth2 in ems:
            op2, ol2, np2, nl2 = SIG[meth2]
            for side, pi in (("old", op2), ("new", np2)):
                if pi is None or pi >= len(t2["args"]):
                    continue
                a = t2["args"][pi]
                if a.get("k") not in ("copy", "move") or a["p"]["proj"]:
                    continue
                # the argument is (a copy of) a named local S with one definition
                term = m.resolve_operand(a)
                if not (isinstance(term, tuple) and term and term[0] == "local" and isinstance(term[2], int) and term[2] > m.arg_count):
                    continue
                S = term[2]
                sd = m.single_def(S)
                if not sd or S in sc.cursors:
                    continue
                posl = norm(lin(m, m.expand(term, depth=3)))
                curs = [c for c, name in sc.cursors.items() if posl.get(term_str(("local", name, c))) == 1]
                if not curs:
                    continue
                c = curs[0]
                defbb = sd[0]
                r.instances += 1
                stale = None
                for bb1, t1, meth1 in ems:
                    if bb1 == bb2:
                        continue
                    o1, ol1, n1, nl1 = SIG[meth1]
                    li = ol1 if side == "old" else nl1
                    if li is None or li >= len(t1["args"]):
                        continue
                    # E1 consumes items of this side; is E2 reachable from E1 without passing S's definition again?
                    if not m.dominates(defbb, bb1) or t1.get("target") is None:
                        continue
                    reach = m.reach_from([t1["target"]], stop=(defbb,))
                    if bb2 in reach:
                        stale = (t1, meth1)
                        break
                ok = stale is None
                r.ob(ok, "%s: `%s` (line %d): position `%s` (from cursor %s) %s" % (
                    fn.path, t2.get("src", meth2)[:50], t2["line"], m.local_name(S), sc.cursors[c],
                    "is fresh" if ok else "is stale after `%s`" % stale[0].get("src", stale[1])[:40]))
                if not ok:
                    r.find(fn.path, "stale-position:%s" % m.local_name(S),
                           "`%s` reports the %s position `%s`, computed from cursor `%s` before `%s` consumed %s items: the "
                           "position no longer is where the previous segment stopped" % (
                               t2.get("src", meth2)[:70], side, m.local_name(S), sc.cursors[c],
                               stale[0].get("src", stale[1])[:50], side), file=fn.file, line=t2["line"])
    return r


def rule_E7(prog):
    return _position_reuse(prog, "E7", False,
                           "a position is used once: when a hook call consumed items of a side at position P (its length is positive, "
                           "E1), no later hook call reachable from it without re-computing P reports the same P for a segment that "
                           "consumes that side, nor -- after an `equal` -- as the carried position of a delete/insert: the next "
                           "segment starts at P + length")


def rule_E8(prog):
    return _position_reuse(prog, "E8", True,
                           "carried positions are exact: after `delete(P, n, q)` consumed old items at P, a following `insert` does "
                           "not carry the old position P again (and symmetrically for the new position carried by a delete after an "
                           "insert): the carried index is P + n.  (C01 tolerates a carried index anywhere within its run of changes; "
                           "the clean-up pass shifts ops by their carried indices, so C11 needs them exact.)")


def _position_reuse(prog, rid, carried, text):
    r = RuleResult(rid, text)
    for fn in prog.user_fns():
        if not fn.mir or fn.module not in SCOPE_MODULES:
            continue
        m = fn.mir
        ems = list(emissions(fn))
        if len(ems) < 2:
            continue

        # local -> blocks that write it: whole or partial assignment (`old_range.start += n`), call destination, `&mut` borrow
        writes = {}
        for bi, b in enumerate(m.blocks):
            for st_ in b["stmts"]:
                if st_["k"] == "assign":
                    writes.setdefault(st_["p"]["l"], set()).add(bi)
                    rv = st_["rv"]
                    if rv["k"] == "ref" and rv.get("mut"):
                        writes.setdefault(rv["p"]["l"], set()).add(bi)
            tt = b["term"]
            if tt["k"] == "call":
                writes.setdefault(tt["dest"]["l"], set()).add(bi)

        def pos_form(t, pi):
            if pi is None or pi >= len(t["args"]):
                return None, None
            term = m.expand(m.resolve_operand(t["args"][pi]), depth=4)
            d = norm(lin(m, term))
            if not d or "?" in d:
                return None, None
            return tuple(sorted(d.items())), term

        for bb1, t1, meth1 in ems:
            o1, ol1, n1, nl1 = SIG[meth1]
            if t1.get("target") is None:
                continue
            for side, p1, l1 in (("old", o1, ol1), ("new", n1, nl1)):
                if l1 is None:
                    continue            # this call consumes nothing of that side
                f1, term1 = pos_form(t1, p1)
                if f1 is None:
                    continue
                r.instances += 1
                # blocks that (re)define a local the position is built from end the life of this value of P
                stops = set(b for l in G.roots(term1) for b in writes.get(l, ()))
                reach = m.reach_from([t1["target"]], stop=tuple(stops))
                stale = None
                for bb2, t2, meth2 in ems:
                    if bb2 == bb1 or bb2 not in reach:
                        continue
                    o2, ol2, n2, nl2 = SIG[meth2]
                    # a carried position (new side of a delete, old side of an insert) may lie anywhere within its run of
                    # changes (C01); it must be exact when the call consumes that side or follows an `equal`
                    is_carried = (ol2 if side == "old" else nl2) is None and meth1 != "equal"
                    if is_carried != carried:
                        continue
                    f2, _ = pos_form(t2, o2 if side == "old" else n2)
                    if f2 == f1:
                        stale = (t2, meth2)
                        break
                r.ob(stale is None, "%s: `%s` (line %d) consumes %s items at %s: %s" % (
                    fn.path, t1.get("src", meth1)[:50], t1["line"], side, _fmt(dict(f1)),
                    "no later call reports that position again" if stale is None else
                    "reported again by `%s`" % stale[0].get("src", stale[1])[:50]))
                if stale is not None:
                    r.find(fn.path, "%s:%s:%s" % ("carried-position-stale" if carried else "position-reused", meth1, stale[1]),
                           "`%s` reports the %s position `%s`, where `%s` (line %d) already consumed %s items: the segment "
                           "does not start where the previous one stopped" % (
                               stale[0].get("src", stale[1])[:70], side, _fmt(dict(f1)), t1.get("src", meth1)[:50], t1["line"], side),
                           file=fn.file, line=stale[0]["line"])
    return r


def _contains_call(term, suffix, depth=0):
    """Does the (expanded) term contain a call whose path ends with `suffix`?"""
    if depth > 14:
        return False
    if isinstance(term, tuple):
        if term and term[0] == "call" and isinstance(term[1], str) and term[1].endswith(suffix):
            return True
        return any(_contains_call(x, suffix, depth + 1) for x in term if isinstance(x, (tuple, list, dict)))
    if isinstance(term, list):
        return any(_contains_call(x, suffix, depth + 1) for x in term)
    if isinstance(term, dict) and "path" not in term:
        return any(_contains_call(x, suffix, depth + 1) for x in term.values())
    return False


def _roots_opaque(term, opaque, acc=None, depth=0):
    """Locals a term is built from, not looking into calls of the `opaque` functions (their result is a number of its own)."""
    acc = set() if acc is None else acc
    if depth > 14:
        return acc
    if isinstance(term, tuple):
        if term and term[0] == "call" and isinstance(term[1], str) and term[1].endswith(tuple(opaque)):
            return acc
        if term and term[0] == "local" and len(term) > 2 and isinstance(term[2], int):
            acc.add(term[2])
            return acc
        for x in term:
            if isinstance(x, (tuple, list, dict)):
                _roots_opaque(x, opaque, acc, depth + 1)
    elif isinstance(term, list):
        for x in term:
            _roots_opaque(x, opaque, acc, depth + 1)
    elif isinstance(term, dict) and "path" not in term:
        for x in term.values():
            _roots_opaque(x, opaque, acc, depth + 1)
    return acc


def rule_E9(prog):
    r = RuleResult("E9", "prefix and suffix are stripped from the same box: where a function measures the common prefix of its two "
                         "ranges and then a common suffix up to the same ends, the suffix is measured over ranges that exclude the "
                         "prefix on BOTH sides (range start advanced by the prefix length), or its result is limited by what the "
                         "prefix left on both sides; otherwise prefix and suffix can overlap on the shorter side and items are "
                         "reported twice")
    PRE, SUF = "utils::common_prefix_len", "utils::common_suffix_len"
    for fn in prog.user_fns():
        if not fn.mir:
            continue
        m = fn.mir
        pcalls = [(bb, t) for bb, t in m.calls() if (m.callee(t) or {}).get("path", "").endswith(PRE) and len(t["args"]) == 4]
        scalls = [(bb, t) for bb, t in m.calls() if (m.callee(t) or {}).get("path", "").endswith(SUF) and len(t["args"]) == 4]
        if not pcalls or not scalls:
            continue

        def unclone(term):
            term = G.strip(term)
            for _ in range(3):
                if isinstance(term, tuple) and term and term[0] == "call" and str(term[1]).endswith("clone") and term[2]:
                    term = G.strip(term[2][0])
            return term

        for sb, st in scalls:
            doms = [(pb, pt) for pb, pt in pcalls if pb != sb and m.dominates(pb, sb)]
            if not doms:
                continue
            pb, pt = doms[-1]
            pdest = pt["dest"]["l"] if not pt["dest"]["proj"] else None
            # the prefix and the suffix must be about the same box: the suffix ranges end where the prefix ranges end
            same_box = True
            sides = {}
            for side, ai in (("old", 1), ("new", 3)):
                pr = unclone(m.resolve_operand(pt["args"][ai]))
                sr_raw = unclone(m.resolve_operand(st["args"][ai]))
                sr = unclone(m.expand(sr_raw, depth=3))
                proots = G.roots(pr)
                trimmed = None
                if isinstance(sr, tuple) and sr and sr[0] == "aggregate" and "start" in sr[2] and "end" in sr[2]:
                    end_roots = G.roots(m.expand(sr[2]["end"], depth=3))
                    if proots and not (proots & (end_roots | G.roots(sr[2]["end"]))):
                        same_box = False
                    e_end = m.expand(sr[2]["end"], depth=3)
                    if norm(lin(m, e_end)) != norm(lin(m, ("field", pr, "end"))) and G.roots(pr):
                        # `..old_range.end` of the very range the prefix was measured on?
                        if term_str(G.strip(sr[2]["end"])) != term_str(("field", pr, "end")):
                            same_box = False
                    start = m.expand(sr[2]["start"], depth=4)
                    trimmed = _contains_call(start, PRE) or (pdest is not None and pdest in G.roots(sr[2]["start"]))
                elif isinstance(sr_raw, tuple) and sr_raw and sr_raw[0] == "local" and isinstance(sr_raw[2], int):
                    R = sr_raw[2]
                    if R not in proots:
                        same_box = False
                    # `R.start += prefix` in a block between the two calls
                    trimmed = False
                    for bi, b in enumerate(m.blocks):
                        if not (m.dominates(pt["target"], bi) and m.dominates(bi, sb)) if pt.get("target") is not None else True:
                            continue
                        for s_ in b["stmts"]:
                            if s_["k"] == "assign" and s_["p"]["l"] == R and s_["p"]["proj"] and \
                                    any(isinstance(e, dict) and (e.get("name") == "start" or e.get("field") == 0) for e in s_["p"]["proj"]):
                                rv = m.expand(m.resolve_rvalue(s_["rv"]), depth=4)
                                if _contains_call(rv, PRE) or (pdest is not None and pdest in G.roots(m.resolve_rvalue(s_["rv"]))):
                                    trimmed = True
                else:
                    same_box = False
                sides[side] = trimmed
            if not same_box or None in sides.values():
                continue
            r.instances += 1
            ok = sides["old"] and sides["new"]
            why = "both ranges exclude the prefix"
            if not ok and not sides["old"] and not sides["new"]:
                # both untrimmed: accept a result limited by what the prefix left on both sides
                sdest = st["dest"]["l"] if not st["dest"]["proj"] else None
                lim_roots = set()
                limited = False
                for bb2, t2 in m.calls():
                    c2 = m.callee(t2) or {}
                    if c2.get("path", "").endswith("::min") and sdest is not None and any(sdest in _op_locals(a) or sdest in G.roots(m.resolve_operand(a)) for a in t2["args"]):
                        limited = True
                        for a in t2["args"]:
                            if sdest in _op_locals(a) or sdest in G.roots(m.resolve_operand(a)):
                                continue          # the suffix length itself
                            if _contains_call(m.resolve_operand(a), SUF):
                                continue
                            lim_roots |= _roots_opaque(m.expand(m.resolve_operand(a), depth=4), (PRE, SUF))
                o_roots = G.roots(unclone(m.resolve_operand(pt["args"][1])))
                n_roots = G.roots(unclone(m.resolve_operand(pt["args"][3])))
                if limited and (lim_roots & o_roots) and (lim_roots & n_roots):
                    ok, why = True, "result limited by both sides"
            r.ob(ok, "%s: suffix measured at line %d after the prefix of line %d: %s" % (
                fn.path, st["line"], pt["line"], why if ok else "old %s, new %s" % (
                    "trimmed" if sides["old"] else "UNTRIMMED", "trimmed" if sides["new"] else "UNTRIMMED")))
            if not ok:
                which = [s for s in ("old", "new") if not sides[s]]
                r.find(fn.path, "suffix-overlaps-prefix:%s" % "+".join(which),
                       "`%s` measures the common suffix over a %s range that still contains the common prefix found at line %d "
                       "(and the result is not limited to what the prefix left on both sides): on inputs like `x x` / `x` prefix "
                       "and suffix overlap, and the overlapping items are reported twice" % (
                           st.get("src", "common_suffix_len(..)")[:80], " and ".join(which), pt["line"]),
                       file=fn.file, line=st["line"])
    return r


# ---------------------------------------------------------------- E10: equal segments are backed by element comparisons
PEQ = "std::cmp::PartialEq"
IDX = "std::ops::Index"


def _elem_comparisons(m):
    """[(true-target block, [(seq term, index term) x2], switch block)] for every switch decided by `new[i] == old[j]`
    (either operand order; `!=` contributes its false edge).  The result may first be stored in a local or in a tuple
    that is matched later (`let same = new[j] == old[i]; match (same, other) { (true, _) => ..`)."""
    out = []
    for sb, blk in enumerate(m.blocks):
        sw = blk["term"]
        if sw["k"] != "switch" or sw.get("discr", {}).get("k") not in ("copy", "move"):
            continue
        if sw["values"] not in (["0"], [0], ["1"], [1]):
            continue
        cond = G.strip(m.expand(m.resolve_operand(sw["discr"]), depth=3))
        neg = False
        for _ in range(3):
            if isinstance(cond, tuple) and cond and cond[0] == "unop" and cond[1] == "Not":
                cond = G.strip(cond[2])
                neg = not neg
        if not (isinstance(cond, tuple) and cond and cond[0] == "call" and len(cond) > 3):
            continue
        c = cond[3] or {}
        if c.get("trait") != PEQ or c.get("method") not in ("eq", "ne") or len(cond[2]) != 2:
            continue
        idxs = []
        for a in cond[2]:
            term = G.strip(a)
            if isinstance(term, tuple) and term and term[0] == "call" and len(term) > 3 and (term[3] or {}).get("trait") == IDX and len(term[2]) == 2:
                idxs.append((G.strip(term[2][0]), term[2][1]))
            else:
                idxs = None
                break
        if not idxs:
            continue
        if sw["values"] in (["0"], [0]):
            false_t, true_t = sw["targets"][0], sw["otherwise"]
        else:
            true_t, false_t = sw["targets"][0], sw["otherwise"]
        if (c["method"] == "ne") != neg:
            false_t, true_t = true_t, false_t
        out.append((true_t, idxs, sb))
    return out


def _dominated_by_edge(m, target, pred_block, b):
    """Is b dominated by the edge pred_block -> target (target has that single predecessor, or dominates b anyway)?"""
    return m.dominates(target, b) and (len(m.preds(target)) == 1)


def rule_E10(prog):
    r = RuleResult("E10", "equal segments are backed by element comparisons: the length of every `equal` call of the three "
                          "algorithms is (a) the result of common_prefix_len / common_suffix_len (also through a private helper "
                          "that returns it), (b) the literal 1 under a `new[j] == old[i]` test of exactly the reported positions, "
                          "(c) `cursor - snapshot` where the cursor only advanced by 1, in lockstep with the other side's cursor, "
                          "under `new[new_cursor] == old[old_cursor]`, (d) a value a dominating `==` test equates with one of "
                          "these, or (e) a parameter of a private helper for which every call site passes such a value; anything "
                          "else reports items equal that nobody compared")
    PRE, SUF = "utils::common_prefix_len", "utils::common_suffix_len"
    by_path = {}
    for f in prog.user_fns():
        by_path.setdefault(f.path, f)
    cmps_cache = {}

    def cmps_of(fnx):
        if fnx.path not in cmps_cache:
            cmps_cache[fnx.path] = _elem_comparisons(fnx.mir)
        return cmps_cache[fnx.path]

    def callee_fn(term):
        """the crate function a ('call', path, args, callee, bb) term calls, if it has a body"""
        if not (isinstance(term, tuple) and term and term[0] == "call" and len(term) > 3):
            return None
        cal = term[3] or {}
        g = by_path.get(cal.get("path") or term[1])
        return g if g is not None and g.mir else None

    def returned(g, comp):
        """terms a crate function returns (component `comp` of a returned tuple, or the value itself)"""
        gm = g.mir
        out = []
        for bi, b in enumerate(gm.blocks):
            for s_ in b["stmts"]:
                if s_["k"] == "assign" and s_["p"]["l"] == 0 and not s_["p"]["proj"]:
                    t_ = gm.resolve_rvalue(s_["rv"])
                    if comp is not None:
                        ts = G.strip(gm.expand(t_, depth=3))
                        if isinstance(ts, tuple) and ts[0] == "aggregate" and comp in ts[2]:
                            out.append(ts[2][comp])
                        else:
                            out.append(("field", t_, comp))
                    else:
                        out.append(t_)
            tt = b["term"]
            if tt["k"] == "call" and tt["dest"]["l"] == 0 and not tt["dest"]["proj"]:
                cal = gm.callee(tt)
                t_ = ("call", cal["path"] if cal else "?", [gm.resolve_operand(a) for a in tt["args"]], cal, bi)
                out.append(t_ if comp is None else ("field", t_, comp))
        return out

    def is_affix(fnx, term, depth=0):
        m = fnx.mir
        e = G.strip(m.expand(term, depth=4))
        if isinstance(e, tuple) and e and e[0] == "call" and isinstance(e[1], str) and e[1].endswith((PRE, SUF)):
            return True
        # a length limited by `min` is at most the affix length: the items at that end are still pairwise equal
        if isinstance(e, tuple) and e and e[0] == "call" and isinstance(e[1], str) and e[1].endswith("::min") and len(e[2]) == 2 and depth < 3:
            return any(is_affix(fnx, a, depth + 1) for a in e[2])
        if depth >= 2:
            return False
        comp = None
        c = e
        if isinstance(e, tuple) and e and e[0] == "field" and isinstance(e[2], str) and e[2].isdigit():
            comp, c = e[2], G.strip(e[1])
        g = callee_fn(c)
        if g is None or g is fnx:
            return False
        rets = returned(g, comp)
        return bool(rets) and all(is_affix(g, t_, depth + 1) for t_ in rets)

    def place_writes(m, key):
        res = []
        for bi, b in enumerate(m.blocks):
            for s_ in b["stmts"]:
                # a write to the place itself: a named local / argument, or through a pointer (in a closure the captured
                # `self` is first copied into a temporary) -- not the temporaries that merely hold a copy of its value
                if s_["k"] == "assign" and (s_["p"]["proj"] or m.local_name(s_["p"]["l"]) is not None or s_["p"]["l"] <= m.arg_count) and \
                        term_str(G.strip(m.resolve_place(s_["p"]))) == key:
                    res.append((bi, s_))
        return res

    def param_index(m, op):
        t_ = G.strip(m.resolve_operand(op)) if op is not None else None
        if isinstance(t_, tuple) and t_ and t_[0] == "local" and isinstance(t_[2], int) and 1 <= t_[2] <= m.arg_count \
                and not [d for d in m.defs().get(t_[2], [])]:
            return t_[2]
        return None

    def classify(fnx, bb, Lop, Oop, Nop, depth=0):
        """why the length operand Lop of an `equal` at block bb of fnx is backed, or None"""
        m = fnx.mir
        cmps = cmps_of(fnx)
        L = m.resolve_operand(Lop)
        Ls = G.strip(L)
        opos = m.expand(m.resolve_operand(Oop), depth=3) if Oop is not None else None
        npos = m.expand(m.resolve_operand(Nop), depth=3) if Nop is not None else None
        # (a)
        if is_affix(fnx, L):
            return "length is a common prefix/suffix length"
        # (b)
        if isinstance(Ls, tuple) and Ls[0] == "const" and Ls[1] == 1:
            if opos is None or npos is None:
                return None
            for true_t, idxs, cb in cmps:
                if not _dominated_by_edge(m, true_t, cb, bb):
                    continue
                forms = [norm(lin(m, m.expand(ix, depth=3))) for _, ix in idxs]
                if sorted(map(_fmt, forms)) == sorted(map(_fmt, [norm(lin(m, opos)), norm(lin(m, npos))])):
                    return "one item under `new[j] == old[i]` of the reported positions"
            return None
        # `let run_len = self.old_current - run_start;` names the difference: look through that one name (not further:
        # the snapshot itself must stay a name)
        Lx = L
        for _ in range(2):
            lsx = G.strip(Lx)
            if isinstance(lsx, tuple) and lsx and lsx[0] == "local" and isinstance(lsx[2], int) and lsx[2] > m.arg_count:
                sdx = m.single_def(lsx[2])
                if sdx and sdx[2] == "assign":
                    rvx = m.resolve_rvalue(sdx[3])
                    rs = G.strip(rvx)
                    if isinstance(rs, tuple) and rs and (rs[0] == "binop" or (rs[0] == "field" and isinstance(rs[1], tuple) and rs[1] and rs[1][0] == "binop")):
                        Lx = rvx
                        continue
            break
        d = norm(lin(m, Lx))
        posk = [k for k, v in d.items() if v == 1]
        negk = [k for k, v in d.items() if v == -1]
        # (c) cursor - snapshot
        if len(d) == 2 and len(posk) == 1 and len(negk) == 1 and Oop is not None and Nop is not None:
            snap = [l for l, decl in enumerate(m.locals) if decl.get("name") and term_str(("local", decl["name"], l)) == negk[0] and m.single_def(l)]
            ok_c = False
            if snap:
                S = snap[0]
                sd = m.single_def(S)
                src = term_str(G.strip(m.resolve_rvalue(sd[3]))) if sd[2] == "assign" else None
                o_l = G.strip(m.resolve_operand(Oop))
                n_l = G.strip(m.resolve_operand(Nop))
                if src == posk[0] and isinstance(o_l, tuple) and o_l[0] == "local" and o_l[2] == S and \
                        isinstance(n_l, tuple) and n_l[0] == "local" and isinstance(n_l[2], int) and m.single_def(n_l[2]):
                    nsd = m.single_def(n_l[2])
                    partner = term_str(G.strip(m.resolve_rvalue(nsd[3]))) if nsd[2] == "assign" else None
                    defb = sd[0]
                    fwd = m.reach_from(m.succs(defb), stop=(defb,)) | {defb}
                    back = set()
                    st_ = [bb]
                    while st_:
                        x = st_.pop()
                        if x in back:
                            continue
                        back.add(x)
                        if x == defb:
                            continue
                        st_.extend(m.preds(x))
                    region = fwd & back
                    ok_c = partner is not None and nsd[0] == defb
                    blocks_x, blocks_p = set(), set()
                    for key, acc in ((posk[0], blocks_x), (partner, blocks_p)):
                        for bi, s_ in (place_writes(m, key) if key else []):
                            if bi not in region:
                                continue
                            rv = norm(lin(m, m.resolve_rvalue(s_["rv"])))
                            if rv != {key: 1, "#": 1}:
                                ok_c = False
                            guarded = False
                            for true_t, idxs, cb in cmps:
                                if _dominated_by_edge(m, true_t, cb, bi):
                                    ks = sorted(term_str(G.strip(ix)) for _, ix in idxs)
                                    if ks == sorted([posk[0], partner]):
                                        guarded = True
                            if not guarded:
                                ok_c = False
                            acc.add(bi)
                    if ok_c and (len(blocks_x) != len(blocks_p) or not blocks_x):
                        ok_c = False
            if ok_c:
                return "cursor - snapshot, advanced one compared item at a time on both sides"
        # (d) equated with an affix length by a dominating test
        lk = term_str(G.strip(m.expand(L, depth=2)))
        lk2 = term_str(Ls)
        for sb_, blk in enumerate(m.blocks):
            sw = blk["term"]
            if sw["k"] != "switch" or sw.get("discr", {}).get("k") not in ("copy", "move") or sw["values"] not in (["0"], [0]):
                continue
            cond = G.strip(m.resolve_operand(sw["discr"]))
            if not (isinstance(cond, tuple) and cond and cond[0] == "binop" and cond[1] == "Eq"):
                continue
            if not _dominated_by_edge(m, sw["otherwise"], sb_, bb):
                continue
            for x, y in ((cond[2], cond[3]), (cond[3], cond[2])):
                if is_affix(fnx, x) and term_str(G.strip(m.expand(y, depth=2))) in (lk, lk2):
                    return "a dominating `==` equates the length with a common prefix/suffix length"
        # (f) the comparison written inline: `(a0..a1).zip(b0..b1).take_while(|&(a, b)| new[b] == old[a]).count()` with the two
        #     ranges starting at the reported positions
        Le = G.strip(m.expand(L, depth=3))
        if isinstance(Le, tuple) and Le and Le[0] == "call" and str(Le[1]).endswith("::count") and Le[2] and Oop is not None and Nop is not None:
            tw = G.strip(Le[2][0])
            if isinstance(tw, tuple) and tw and tw[0] == "call" and "::take_while" in str(tw[1]) and tw[2]:
                zp = G.strip(m.expand(tw[2][0], depth=3))
                cal = tw[3] if len(tw) > 3 else None
                cfs = [prog.fn(a.get("path", "")) for a in (cal or {}).get("args", []) if isinstance(a, dict) and a.get("k") == "closure"]
                cfs = [x for x in cfs if x is not None and x.mir]
                if isinstance(zp, tuple) and zp and zp[0] == "call" and "::zip" in str(zp[1]) and len(zp[2]) == 2 and len(cfs) == 1:
                    starts = []
                    for rg in zp[2]:
                        rg = G.strip(m.expand(rg, depth=3))
                        if isinstance(rg, tuple) and rg and rg[0] == "aggregate" and "start" in rg[2]:
                            starts.append(_fmt(norm(lin(m, m.expand(rg[2]["start"], depth=3)))))
                    want = sorted([_fmt(norm(lin(m, opos))), _fmt(norm(lin(m, npos)))])
                    # the closure compares an element of one sequence with an element of the other, indexed by its two
                    # parameters (the components of the zipped pair)
                    cm = cfs[0].mir
                    cmp_ok = False
                    for cb, ct in cm.calls():
                        cc = cm.callee(ct) or {}
                        if cc.get("trait") == PEQ and cc.get("method") in ("eq", "ne") and len(ct["args"]) == 2:
                            idx_roots = set()
                            for a in ct["args"]:
                                term = G.strip(cm.resolve_operand(a))
                                if isinstance(term, tuple) and term and term[0] == "call" and len(term) > 3 and (term[3] or {}).get("trait") == IDX and len(term[2]) == 2:
                                    idx_roots |= {l for l in G.roots(cm.expand(term[2][1], depth=3))}
                            if idx_roots and all(l >= 2 or l == 0 for l in idx_roots) and cc.get("method") == "eq":
                                cmp_ok = True
                    if len(starts) == 2 and sorted(starts) == want and cmp_ok:
                        return "count of a take_while over the two ranges zipped from the reported positions, comparing the paired items"
        # (e) a parameter of a private helper: every call site must pass a backed value
        pi = param_index(m, Lop)
        if pi is not None and depth < 2:
            oi, ni = param_index(m, Oop), param_index(m, Nop)
            sites = []
            for g in prog.user_fns():
                if not g.mir or g is fnx:
                    continue
                for cb, ct in g.mir.calls():
                    cal = g.mir.callee(ct) or {}
                    if cal.get("path") == fnx.path and len(ct["args"]) >= pi:
                        sites.append((g, cb, ct))
            if sites:
                whys = []
                for g, cb, ct in sites:
                    w = classify(g, cb, ct["args"][pi - 1],
                                 ct["args"][oi - 1] if oi is not None and oi - 1 < len(ct["args"]) else None,
                                 ct["args"][ni - 1] if ni is not None and ni - 1 < len(ct["args"]) else None, depth + 1)
                    if w is None:
                        return None
                    whys.append(w)
                return "helper parameter; every one of its %d call site(s) passes a backed length (%s)" % (len(sites), whys[0])
        return None

    for fn in prog.user_fns():
        if not fn.mir or fn.module not in SCOPE_MODULES:
            continue
        m = fn.mir
        for bb, t, meth in emissions(fn):
            if meth != "equal" or len(t["args"]) < 4:
                continue
            r.instances += 1
            why = classify(fn, bb, t["args"][3], t["args"][1], t["args"][2])
            Ls = G.strip(m.resolve_operand(t["args"][3]))
            r.ob(why is not None, "%s: `%s` (line %d): %s" % (fn.path, t.get("src", "equal")[:60], t["line"], why or "length `%s` is not backed by a comparison" % term_str(Ls)[:80]))
            if why is None:
                r.find(fn.path, "unbacked-equal:%s" % re.sub(r"_\d+\b", "_", term_str(Ls))[:60],
                       "`%s` reports %s items as equal, but that length is neither a common prefix/suffix length, nor one "
                       "item under a `new[j] == old[i]` test of the reported positions, nor the distance a cursor pair "
                       "advanced under such a test (nor a helper parameter every caller fills with one of these): items "
                       "nobody compared are reported equal" % (
                           t.get("src", "equal")[:80], term_str(Ls)[:60]), file=fn.file, line=t["line"])
    return r
