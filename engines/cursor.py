"""Engine E (part 2): cursor discipline of emission loops (MIR).

A *cursor* is a mutable usize local that occurs as an addend of the old/new position argument of an emission
(`d.delete(old_range.start + common_prefix_len + old_idx, ..)`).  Two rules:

E3  consume-advance: after an emission that consumes L items of side S at a position built from cursor c_S, the
    first thing that happens to c_S on every path is `c_S += L` (same L); reading c_S before that, or advancing
    it by something else, reports positions that do not start where the previous segment stopped.
E2  tail-flush exhaustiveness: when a function flushes the remainder of a cursor (`if c < n { emit(n - c) }`),
    every `finish` reached after the cursor was initialised is reached either through that flush or with the
    fact `!(c < n)` -- for every flushed cursor independently (old and new remainders are both consumed).
"""
from .core import RuleResult
from .facts import term_str
from . import guard as G

HOOK = "algorithms::hook::DiffHook"
# method -> (old pos arg, old len arg, new pos arg, new len arg)   (argument positions incl. receiver)
SIG = {
    "equal": (1, 3, 2, 3),
    "delete": (1, 2, 3, None),
    "insert": (1, None, 2, 3),
    "replace": (1, 2, 3, 4),
}
SCOPE_MODULES = ("algorithms::myers", "algorithms::lcs", "algorithms::patience")


def lin(m, term, sign=1, acc=None, depth=0):
    """Linear form over +/-: {key: coef}; checked-arithmetic wrappers `(a + b).0` are looked through."""
    acc = {} if acc is None else acc
    t = G.strip(term)
    if not isinstance(t, tuple) or depth > 12:
        acc["?"] = acc.get("?", 0) + sign
        return acc
    if t[0] == "field" and isinstance(t[1], tuple) and t[1] and t[1][0] == "binop" and t[2] == "0":
        return lin(m, t[1], sign, acc, depth + 1)
    if t[0] == "binop" and t[1] in ("Add", "AddWithOverflow", "AddUnchecked"):
        lin(m, t[2], sign, acc, depth + 1)
        lin(m, t[3], sign, acc, depth + 1)
        return acc
    if t[0] == "binop" and t[1] in ("Sub", "SubWithOverflow", "SubUnchecked"):
        lin(m, t[2], sign, acc, depth + 1)
        lin(m, t[3], -sign, acc, depth + 1)
        return acc
    if t[0] == "const" and isinstance(t[1], int):
        if t[1]:
            acc["#"] = acc.get("#", 0) + sign * t[1]
        return acc
    k = term_str(t)
    acc[k] = acc.get(k, 0) + sign
    return acc


def norm(d):
    return {k: v for k, v in d.items() if v != 0}


def mutable_usize_locals(m, any_defs=False):
    out = {}
    for l, decl in enumerate(m.locals):
        if l <= m.arg_count or not decl.get("name") or decl["ty_str"] != "usize":
            continue
        if any_defs or len(m.defs().get(l, [])) > 1:
            out[l] = decl["name"]
    return out


def emissions(fn):
    m = fn.mir
    for bb, t in m.calls():
        c = m.callee(t)
        if c and c.get("trait") == HOOK and c.get("method") in SIG:
            yield bb, t, c["method"]


def _mentions_local(term, l):
    if isinstance(term, tuple):
        if term and term[0] == "local" and len(term) > 2 and term[2] == l:
            return True
        return any(_mentions_local(x, l) for x in term if isinstance(x, (tuple, list)))
    if isinstance(term, list):
        return any(_mentions_local(x, l) for x in term)
    return False


def _op_locals(op):
    if op.get("k") in ("copy", "move"):
        return [op["p"]["l"]] + [e["index"] for e in op["p"]["proj"] if isinstance(e, dict) and "index" in e]
    return []


def _rv_locals(rv):
    k = rv["k"]
    if k in ("use", "cast", "repeat"):
        return _op_locals(rv["op"])
    if k == "unop":
        return _op_locals(rv["x"])
    if k == "binop":
        return _op_locals(rv["l"]) + _op_locals(rv["r"])
    if k == "aggregate":
        out = []
        for o in rv["ops"]:
            out += _op_locals(o)
        return out
    if k in ("ref", "discr", "rawptr"):
        return [rv["p"]["l"]]
    return []


class CursorScan:
    def __init__(self, fn):
        self.fn = fn
        self.m = fn.mir
        self.cursors = mutable_usize_locals(self.m)

    def first_touch(self, start_bb, c, want):
        """Explore from `start_bb`; for every path classify the first touch of cursor `c`.
        Returns list of problems [(kind, line, detail)]."""
        m = self.m
        problems = []
        seen = set()
        stack = [start_bb]
        while stack:
            b = stack.pop()
            if b in seen or m.blocks[b]["cleanup"]:
                continue
            seen.add(b)
            touched = False
            stmts = m.blocks[b]["stmts"]
            for i, s in enumerate(stmts):
                if s["k"] != "assign":
                    continue
                if not s["p"]["proj"] and s["p"]["l"] == c:
                    # direct assignment to the cursor
                    inc = self.increment_of(s["rv"], c)
                    touched = True
                    if inc is None:
                        # `c = X` is fine when X equals c + L as a linear form (e.g. `old_idx = old_len`)
                        total = dict(want)
                        ck = term_str(("local", m.local_name(c), c))
                        total[ck] = total.get(ck, 0) + 1
                        if norm(lin(m, m.resolve_rvalue(s["rv"]))) != norm(total):
                            problems.append(("reassigned", s["line"], "cursor assigned `%s`" % term_str(m.resolve_rvalue(s["rv"]))))
                    elif norm(inc) != want:
                        problems.append(("wrong-advance", s["line"], "cursor advanced by %s" % _fmt(inc)))
                    break
                if c in _rv_locals(s["rv"]):
                    # a read: fine only if it is the first half of `c += X`
                    if self.is_update_read(b, i, c):
                        continue
                    touched = True
                    problems.append(("stale-read", s["line"], "cursor read before it was advanced"))
                    break
            if touched:
                continue
            t = m.blocks[b]["term"]
            if t["k"] == "call":
                used = []
                for a in t["args"]:
                    used += _op_locals(a)
                if c in used:
                    problems.append(("stale-read", t["line"], "cursor passed to `%s` before it was advanced" % t.get("src", "?")))
                    continue
            if t["k"] == "switch" and c in _op_locals(t["discr"]):
                problems.append(("stale-read", t.get("line", 0), "cursor tested before it was advanced"))
                continue
            for s_ in m.succs(b):
                stack.append(s_)
        return problems

    def is_update_read(self, b, i, c):
        """stmts[i] of block b reads c into temp t; is t only the first half of `c = t.0` (checked add)?"""
        m = self.m
        s = m.blocks[b]["stmts"][i]
        if s["p"]["proj"]:
            return False
        t = s["p"]["l"]
        if m.local_name(t) is not None:
            return False
        # follow: the temp (or its .0) must be assigned to c in this block or the assert successor
        cur = b
        for _ in range(3):
            for s2 in m.blocks[cur]["stmts"]:
                if s2["k"] == "assign" and not s2["p"]["proj"] and s2["p"]["l"] == c:
                    return t in self.temps_of(s2["rv"])
            term = m.blocks[cur]["term"]
            if term["k"] == "assert":
                cur = term["target"]
            else:
                break
        return False

    def temps_of(self, rv, depth=0):
        """Temporaries feeding an rvalue (through single-def temps)."""
        m = self.m
        out = set()
        for l in _rv_locals(rv):
            if m.local_name(l) is None and l > m.arg_count:
                out.add(l)
                if depth < 6:
                    sd = m.single_def(l)
                    if sd and sd[2] == "assign":
                        out |= self.temps_of(sd[3], depth + 1)
        return out

    def increment_of(self, rv, c):
        """If rv computes c + X return lin(X) else None."""
        m = self.m
        t = G.strip(m.resolve_rvalue(rv))
        if isinstance(t, tuple) and t and t[0] == "field" and t[2] == "0":
            t = G.strip(t[1])
        if not (isinstance(t, tuple) and t and t[0] == "binop" and t[1] in ("Add", "AddWithOverflow", "AddUnchecked")):
            return None
        a, b = G.strip(t[2]), G.strip(t[3])

        def is_c(x):
            return isinstance(x, tuple) and x and x[0] == "local" and len(x) > 2 and x[2] == c
        if is_c(a):
            return norm(lin(m, b))
        if is_c(b):
            return norm(lin(m, a))
        return None


def _fmt(d):
    d = norm(d)
    if not d:
        return "0"
    return " ".join(("%+d*%s" % (v, k)) if k != "#" else ("%+d" % v) for k, v in sorted(d.items()))


def rule_E3(prog):
    r = RuleResult("E3", "consume-advance: after an emission whose old (new) position is built from a cursor variable, "
                         "the first thing that happens to that cursor on every path is `cursor += <the emitted old (new) "
                         "length>`; the cursor is never read, tested or passed on in between")
    for fn in prog.user_fns():
        if not fn.mir or fn.module not in SCOPE_MODULES:
            continue
        sc = CursorScan(fn)
        if not sc.cursors:
            continue
        m = fn.mir
        for bb, t, meth in emissions(fn):
            op, ol, np_, nl = SIG[meth]
            for side, pi, li in (("old", op, ol), ("new", np_, nl)):
                if li is None:
                    continue
                pos = m.expand(m.resolve_operand(t["args"][pi]), depth=3)
                posl = norm(lin(m, pos))
                curs = [c for c, name in sc.cursors.items() if posl.get(term_str(("local", name, c))) == 1]
                if not curs:
                    continue
                c = curs[0]
                want = norm(lin(m, m.resolve_operand(t["args"][li])))
                r.instances += 1
                if t["target"] is None:
                    continue
                probs = sc.first_touch(t["target"], c, want)
                r.ob(not probs, "%s: `%s` (line %d) consumes %s of %s; cursor %s: %s" % (
                    fn.path, t.get("src", meth)[:70], t["line"], _fmt(want), side, sc.cursors[c],
                    "advanced by the same amount before its next use on every path" if not probs else probs[0][2]))
                for kind_, line, detail in probs[:1]:
                    r.find(fn.path, "%s:%s:%s" % (kind_, sc.cursors[c], meth),
                           "after `%s` consumed %s %s item(s), %s (cursor `%s` must first be advanced by the consumed "
                           "length): the next segment does not start where this one stopped" % (
                               t.get("src", meth), _fmt(want), side, detail, sc.cursors[c]), file=fn.file, line=line)
    return r


class MarkFlow(G.Flow):
    """Valuation flow that also records which flush emissions a path went through."""

    def __init__(self, fn, marks):
        super().__init__(fn)
        self.marks = marks      # block -> literal id

    def transfer_stmts(self, b, st):
        out = super().transfer_stmts(b, st)
        if b in self.marks:
            lit = ("emitted", self.marks[b], frozenset())
            ns = set()
            for v in out:
                nv = v.add(lit, True)
                ns.add(nv if nv is not None else v)
            out = frozenset(ns)
        return out


def rule_E2(prog):
    r = RuleResult("E2", "tail-flush exhaustiveness: for every cursor whose remainder is flushed (`if c < n { emit(n - c) }`), "
                         "each `finish` reached after the cursor's initialisation is reached through that flush or with the "
                         "fact !(c < n); the old and the new remainder are flushed independently")
    for fn in prog.user_fns():
        if not fn.mir or fn.module not in SCOPE_MODULES:
            continue
        sc = CursorScan(fn)
        # a remainder may also be flushed from a position a helper returned (`let (old_pos, new_pos) = walk(..)?`):
        # any named usize local can be the `c` of a guarded `emit(n - c)`
        sc.cursors = mutable_usize_locals(fn.mir, any_defs=True)
        if not sc.cursors:
            continue
        m = fn.mir
        base = G.Flow(fn)
        base.run()
        flushes = []     # (block, cursor local, bound key, method)
        for bb, t, meth in emissions(fn):
            op, ol, np_, nl = SIG[meth]
            for li in (ol, nl):
                if li is None:
                    continue
                term = m.resolve_operand(t["args"][li])
                d = norm(lin(m, term))
                neg = [k for k, v in d.items() if v == -1]
                posk = [k for k, v in d.items() if v == 1]
                if len(neg) == 1 and len(posk) == 1 and len(d) == 2:
                    curs = [c for c, name in sc.cursors.items() if term_str(("local", name, c)) == neg[0]]
                    if curs:
                        st = base.instate.get(bb)
                        guarded = bool(st) and all(v.has(("lt", neg[0], posk[0]), True) for v in st)
                        if guarded:
                            flushes.append((bb, curs[0], posk[0], meth))
        if not flushes:
            continue
        marks = {bb: i for i, (bb, c, n, meth) in enumerate(flushes)}
        fl = MarkFlow(fn, marks)
        fl.run()
        fins = [(bb, t) for bb, t in m.calls() if (m.callee(t) or {}).get("trait") == HOOK and m.callee(t).get("method") == "finish"]
        for i, (fb, c, nkey, meth) in enumerate(flushes):
            cname = sc.cursors[c]
            ckey = term_str(("local", cname, c))
            init_blocks = [d[0] for d in m.defs().get(c, [])]
            first_init = min(init_blocks) if init_blocks else 0
            for bb, t in fins:
                if not m.dominates(first_init, bb):
                    continue
                r.instances += 1
                st = fl.instate.get(bb)
                if st is None:
                    continue
                bad = None
                for v in st:
                    if v.has(("emitted", i), True) or v.has(("lt", ckey, nkey), False):
                        continue
                    bad = v
                    break
                r.ob(bad is None, "%s: finish (line %d): remainder %s - %s is flushed by `%s` or known empty on every path: %s" % (
                    fn.path, t["line"], nkey, cname, meth, bad is None))
                if bad is not None:
                    facts = sorted(("%s%s" % ("" if p else "!", G._lit_s(l) if l[0] != "emitted" else "flush#%d" % l[1])) for l, p in bad.lits)
                    r.find(fn.path, "unflushed:%s" % cname,
                           "finish is reachable (line %d) on a path where the remainder `%s - %s` was neither flushed by "
                           "`%s` nor shown empty (facts on that path: %s): part of the %s range is never reported" % (
                               t["line"], nkey, cname, meth, ", ".join(facts) or "none",
                               "old" if meth == "delete" else "new"), file=fn.file, line=m.blocks[fb]["term"]["line"])
    return r


def rule_E5(prog):
    r = RuleResult("E5", "one cursor, one origin: every hook-call position that is built from a cursor variable adds the same "
                         "base to it (`range.start + common_prefix_len + cursor` everywhere); a call site that drops or adds a "
                         "term reports a position in another coordinate system than its siblings")
    from collections import Counter
    for fn in prog.user_fns():
        if not fn.mir or fn.module not in SCOPE_MODULES:
            continue
        sc = CursorScan(fn)
        if not sc.cursors:
            continue
        m = fn.mir
        forms = {}       # cursor -> [(base form, line, src)]
        for bb, t, meth in emissions(fn):
            op, ol, np_, nl = SIG[meth]
            for pi in (op, np_):
                if pi is None or pi >= len(t["args"]):
                    continue
                pos = m.expand(m.resolve_operand(t["args"][pi]), depth=3)
                posl = norm(lin(m, pos))
                for c, name in sc.cursors.items():
                    ck = term_str(("local", name, c))
                    if posl.get(ck) == 1:
                        base = tuple(sorted((k, v) for k, v in posl.items() if k not in (ck, "#")))
                        forms.setdefault(c, []).append((base, t["line"], t.get("src", meth)))
        for c, lst in forms.items():
            if len(lst) < 2:
                continue
            r.instances += 1
            cnt = Counter(b for b, _, _ in lst)
            ok = len(cnt) == 1
            r.ob(ok, "%s: cursor %s is offset by %s at %d call site(s)" % (
                fn.path, sc.cursors[c], [_fmt(dict(b)) for b in cnt], len(lst)))
            if not ok:
                common = cnt.most_common(1)[0][0]
                for b, line, src in lst:
                    if b != common:
                        r.find(fn.path, "cursor-base:%s" % sc.cursors[c],
                               "`%s` builds a position as %s + %s, while the other %d call site(s) of this function use %s + %s" % (
                                   src[:80], _fmt(dict(b)) or "0", sc.cursors[c], cnt[common], _fmt(dict(common)) or "0",
                                   sc.cursors[c]), file=fn.file, line=line)
                        break
    return r


def rule_E6(prog):
    r = RuleResult("E6", "no stale position snapshot: a local computed from a cursor (`let rest = base + old_idx`) is not used as "
                         "the position of a hook call that can be reached, without re-computing the local, after another hook "
                         "call consumed items of that cursor's side")
    for fn in prog.user_fns():
        if not fn.mir or fn.module not in SCOPE_MODULES:
            continue
        sc = CursorScan(fn)
        if not sc.cursors:
            continue
        m = fn.mir
        ems = list(emissions(fn))
        for bb2, t2, meth2 in ems:
            op2, ol2, np2, nl2 = SIG[meth2]
            for side, pi in (("old", op2), ("new", np2)):
                if pi is None or pi >= len(t2["args"]):
                    continue
                a = t2["args"][pi]
                if a.get("k") not in ("copy", "move") or a["p"]["proj"]:
                    continue
                # the argument is (a copy of) a named local S with one definition
                term = m.resolve_operand(a)
                if not (isinstance(term, tuple) and term and term[0] == "local" and isinstance(term[2], int) and term[2] > m.arg_count):
                    continue
                S = term[2]
                sd = m.single_def(S)
                if not sd or S in sc.cursors:
                    continue
                posl = norm(lin(m, m.expand(term, depth=3)))
                curs = [c for c, name in sc.cursors.items() if posl.get(term_str(("local", name, c))) == 1]
                if not curs:
                    continue
                c = curs[0]
                defbb = sd[0]
                r.instances += 1
                stale = None
                for bb1, t1, meth1 in ems:
                    if bb1 == bb2:
                        continue
                    o1, ol1, n1, nl1 = SIG[meth1]
                    li = ol1 if side == "old" else nl1
                    if li is None or li >= len(t1["args"]):
                        continue
                    # E1 consumes items of this side; is E2 reachable from E1 without passing S's definition again?
                    if not m.dominates(defbb, bb1) or t1.get("target") is None:
                        continue
                    reach = m.reach_from([t1["target"]], stop=(defbb,))
                    if bb2 in reach:
                        stale = (t1, meth1)
                        break
                ok = stale is None
                r.ob(ok, "%s: `%s` (line %d): position `%s` (from cursor %s) %s" % (
                    fn.path, t2.get("src", meth2)[:50], t2["line"], m.local_name(S), sc.cursors[c],
                    "is fresh" if ok else "is stale after `%s`" % stale[0].get("src", stale[1])[:40]))
                if not ok:
                    r.find(fn.path, "stale-position:%s" % m.local_name(S),
                           "`%s` reports the %s position `%s`, computed from cursor `%s` before `%s` consumed %s items: the "
                           "position no longer is where the previous segment stopped" % (
                               t2.get("src", meth2)[:70], side, m.local_name(S), sc.cursors[c],
                               stale[0].get("src", stale[1])[:50], side), file=fn.file, line=t2["line"])
    return r
