"""Finding / rule-result plumbing shared by all engines."""


class Finding:
    def __init__(self, rule, fn, detail, msg, file=None, line=None, extra=None, undecided=False):
        self.rule = rule
        self.fn = fn
        self.detail = detail
        self.msg = msg
        self.file = file
        self.line = line
        self.extra = extra or {}
        self.undecided = undecided

    @property
    def key(self):
        # stable: no line numbers
        return "%s:%s:%s" % (self.rule, self.fn, self.detail)

    def to_json(self):
        return {
            "rule": self.rule,
            "key": self.key,
            "function": self.fn,
            "file": self.file,
            "line": self.line,
            "message": self.msg,
            "undecided": self.undecided,
            "detail": self.extra,
        }

    def __repr__(self):
        return "%s %s:%s %s: %s" % (self.rule, self.file, self.line, self.fn, self.msg)


class RuleResult:
    """Outcome of one rule on one configuration."""

    def __init__(self, rule, text):
        self.rule = rule
        self.text = text
        self.findings = []
        self.obligations = 0      # things that had to be shown
        self.discharged = 0       # ... and were
        self.instances = 0        # rule instances matched (floor check: must not shrink silently)
        self.samples = []         # human-readable obligations with their derivation
        self.notes = []
        self.counters = {}

    def ob(self, ok, sample=None):
        self.obligations += 1
        if ok:
            self.discharged += 1
        if sample is not None and len(self.samples) < 400:
            self.samples.append(sample)

    def find(self, *a, **kw):
        f = Finding(self.rule, *a, **kw)
        # de-duplicate by key
        if all(x.key != f.key for x in self.findings):
            self.findings.append(f)
        return f

    def count(self, name, n=1):
        self.counters[name] = self.counters.get(name, 0) + n


def loc(fn, line=None):
    return {"file": fn.file, "line": line if line is not None else fn.line}
