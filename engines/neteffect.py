"""Net effect of a `&mut self` method on the fields of an enum, by conditional constant propagation over MIR.

A forward dataflow analysis (one pass over the acyclic CFG in reverse post-order, joins at merge points) over a small
value domain:

    ("P", i)              i-th parameter of the entry function
    ("K", c)              constant
    ("T", (v..))          tuple
    ("V", adt, name, idx, (payload..))   enum value built by an aggregate (e.g. Delta::Sub(n), (n, true) is a T)
    ("RS",)               reference to *self;  ("RF", variant, field)  reference to self.<variant>.<field>
    ("FV", variant, field)   the value currently stored in that field
    ("AR", op, lhs, rhs)  lhs (+|-) rhs
    ("REFL", l)           reference to a local
    ("SET", frozenset)    join of different values (bounded);   ("TOP",)

Branches whose discriminant is a known constant / known variant are followed on the feasible edge only (the "conditional"
in conditional constant propagation); calls to local functions are analysed with the caller's argument values (cloning,
depth-bounded).  The result is the set of may-effects {(variant, field, op, amount)} of stores through references into
self.  Loops make the function undecidable for this analysis (None is returned).
"""
import re

TOP = ("TOP",)
BOT = ("BOT",)
MAXSET = 16


def mkset(vals):
    out = set()
    for v in vals:
        if v == BOT:
            continue
        if v == TOP:
            return TOP
        if v[0] == "SET":
            out |= set(v[1])
        else:
            out.add(v)
    if not out:
        return BOT
    if len(out) == 1:
        return next(iter(out))
    if len(out) > MAXSET:
        return TOP
    return ("SET", frozenset(out))


def join(a, b):
    if a == b:
        return a
    if a is None or a == BOT:
        return b
    if b is None or b == BOT:
        return a
    if a[0] == "T" and b[0] == "T" and len(a[1]) == len(b[1]):
        return ("T", tuple(join(x, y) for x, y in zip(a[1], b[1])))
    return mkset([a, b])


def members(v):
    if v[0] == "SET":
        return list(v[1])
    return [v]


class Net:
    def __init__(self, prog, enum_path):
        self.prog = prog
        self.enum_path = enum_path
        self.effects = set()
        self.notes = []
        self.undecided = False

    # ------------------------------------------------------------------ helpers
    def variant_index(self, adt, name):
        if adt == "std::option::Option":
            return {"None": 0, "Some": 1}.get(name)
        a = self.prog.adts.get(adt)
        if a:
            for i, v in enumerate(a["variants"]):
                if v["name"] == name:
                    return i
        return None

    def const_of(self, op):
        v = op.get("val")
        ty = op.get("ty") or ""
        if ty == "bool":
            return ("K", v == "true")
        if isinstance(v, str):
            import re
            m = re.match(r"^(-?\d+)_?[iu](size|8|16|32|64|128)$", v)
            if m:
                return ("K", int(m.group(1)))
        if v == "()":
            return ("T", ())
        return TOP

    # ------------------------------------------------------------------ lvalues
    def lval(self, env, place):
        lv = ("loc", place["l"])
        for e in place["proj"]:
            if e == "deref":
                v = self.load(env, lv)
                lvs = []
                for x in members(v):
                    if x[0] == "RS":
                        lvs.append(("self",))
                    elif x[0] == "RF":
                        lvs.append(("selffield", x[1], x[2]))
                    elif x[0] == "REFL":
                        lvs.append(("loc", x[1]))
                    else:
                        lvs.append(("unknown",))
                lv = lvs[0] if len(lvs) == 1 else ("multi", tuple(lvs))
            elif isinstance(e, dict) and "downcast" in e:
                lv = ("down", lv, e["downcast"])
            elif isinstance(e, dict) and "field" in e:
                lv = ("field", lv, e["field"], e.get("name"))
            else:
                lv = ("unknown",)
        return lv

    def load(self, env, lv):
        k = lv[0]
        if k == "loc":
            return env.get(lv[1], TOP)
        if k == "self":
            return ("SELFVAL",)
        if k == "selffield":
            return ("FV", lv[1], lv[2])
        if k == "multi":
            return mkset([self.load(env, x) for x in lv[1]])
        if k == "down":
            base = lv[1]
            if base[0] == "self":
                return ("SELFVAR", lv[2])
            v = self.load(env, base)
            out = []
            for x in members(v):
                if x[0] == "V":
                    if x[2] == lv[2]:
                        out.append(x)
                elif x == TOP:
                    return TOP
                else:
                    out.append(TOP)
            return mkset(out)
        if k == "field":
            base, idx, name = lv[1], lv[2], lv[3]
            if base[0] == "down" and base[1][0] == "self":
                return ("FV", base[2], name or str(idx))
            v = self.load(env, base)
            out = []
            for x in members(v):
                if x[0] == "T" and idx < len(x[1]):
                    out.append(x[1][idx])
                elif x[0] == "V" and idx < len(x[4]):
                    out.append(x[4][idx])
                elif x[0] == "OV":
                    out.append(x[1] if idx == 0 else TOP)
                elif x[0] == "SELFVAR":
                    out.append(("FV", x[1], name or str(idx)))
                else:
                    out.append(TOP)
            return mkset(out)
        return TOP

    def ref(self, env, lv):
        k = lv[0]
        if k == "self":
            return ("RS",)
        if k == "selffield":
            return ("RF", lv[1], lv[2])
        if k == "field" and lv[1][0] == "down" and lv[1][1][0] == "self":
            return ("RF", lv[1][2], lv[3] or str(lv[2]))
        if k == "loc":
            return ("REFL", lv[1])
        if k == "multi":
            return mkset([self.ref(env, x) for x in lv[1]])
        if k == "field":
            # reference to a component of a local aggregate: not tracked further
            return TOP
        return TOP

    def store(self, env, lv, v, line):
        k = lv[0]
        if k == "loc":
            env[lv[1]] = v
            return
        if k == "multi":
            for x in lv[1]:
                self.store(env, x, v, line)
            return
        if k == "selffield" or (k == "field" and lv[1][0] == "down" and lv[1][1][0] == "self"):
            var, fld = (lv[1], lv[2]) if k == "selffield" else (lv[1][2], lv[3] or str(lv[2]))
            for x in members(v):
                if x[0] == "AR" and x[2] != TOP:
                    # the left operand must be the field itself (read through the same reference, possibly a set)
                    lhs_ok = any(y == ("FV", var, fld) for y in members(x[2]))
                    if lhs_ok:
                        self.effects.add((var, fld, x[1], x[3]))
                        continue
                if x == ("FV", var, fld):
                    continue        # writes the field back unchanged
                self.effects.add((var, fld, "=", x))
            return
        if k == "self" or k == "down":
            self.effects.add(("*", "*", "=", TOP))
            return
        if k == "field" and lv[1][0] == "loc":
            base = env.get(lv[1][1])
            if base and base[0] == "T" and lv[2] < len(base[1]):
                xs = list(base[1])
                xs[lv[2]] = v
                env[lv[1][1]] = ("T", tuple(xs))
            return
        # unknown target: nothing tracked

    # ------------------------------------------------------------------ rvalues
    def operand(self, env, op):
        if op["k"] in ("copy", "move"):
            return self.load(env, self.lval(env, op["p"]))
        if op["k"] == "const":
            if op.get("fn"):
                return TOP
            return self.const_of(op)
        return TOP

    def rvalue(self, env, rv):
        k = rv["k"]
        if k == "use":
            return self.operand(env, rv["op"])
        if k == "ref":
            return self.ref(env, self.lval(env, rv["p"]))
        if k == "cast":
            return self.operand(env, rv["op"])
        if k == "binop":
            l, r = self.operand(env, rv["l"]), self.operand(env, rv["r"])
            op = rv["op"]
            if op in ("Add", "AddWithOverflow", "AddUnchecked", "Sub", "SubWithOverflow", "SubUnchecked"):
                ar = ("AR", "+" if op.startswith("Add") else "-", l, r)
                return ("OV", ar) if op.endswith("WithOverflow") else ar
            if op in ("Eq", "Ne") and l[0] == "K" and r[0] == "K":
                return ("K", (l[1] == r[1]) == (op == "Eq"))
            return TOP
        if k == "unop":
            x = self.operand(env, rv["x"])
            if rv["op"] == "Not" and x[0] == "K" and isinstance(x[1], bool):
                return ("K", not x[1])
            return TOP
        if k == "aggregate":
            ops = tuple(self.operand(env, o) for o in rv["ops"])
            if rv["ak"] == "tuple":
                return ("T", ops)
            if rv["ak"] == "adt":
                return ("V", rv["adt"], rv["variant"], self.variant_index(rv["adt"], rv["variant"]), ops)
            return TOP
        if k == "discr":
            v = self.load(env, self.lval(env, rv["p"]))
            out = []
            for x in members(v):
                if x[0] == "V" and x[3] is not None:
                    out.append(("K", x[3]))
                else:
                    out.append(TOP)
            return mkset(out)
        return TOP

    # ------------------------------------------------------------------ one function
    def run(self, fn, args, depth=0):
        m = fn.mir
        if m is None or depth > 5:
            self.undecided = True
            return TOP
        if m.back_edges():
            self.undecided = True
            self.notes.append("%s contains a loop" % fn.path)
            return TOP
        # reverse post-order
        order, seen = [], set()

        def dfs(b):
            stack = [(b, iter(m.succs(b)))]
            seen.add(b)
            while stack:
                node, it = stack[-1]
                adv = False
                for s_ in it:
                    if s_ not in seen:
                        seen.add(s_)
                        stack.append((s_, iter(m.succs(s_))))
                        adv = True
                        break
                if not adv:
                    order.append(node)
                    stack.pop()
        dfs(0)
        order.reverse()
        instate = {0: {i + 1: a for i, a in enumerate(args)}}
        ret = BOT
        for b in order:
            if b not in instate or m.blocks[b]["cleanup"]:
                continue
            env = dict(instate[b])
            blk = m.blocks[b]
            for s_ in blk["stmts"]:
                if s_["k"] != "assign":
                    continue
                v = self.rvalue(env, s_["rv"])
                self.store(env, self.lval(env, s_["p"]), v, s_.get("line", 0))
            t = blk["term"]
            succs = []
            k = t["k"]
            if k == "goto":
                succs = [t["target"]]
            elif k == "switch":
                d = self.operand(env, t["discr"])
                feas = set()
                for x in members(d):
                    if x[0] == "K":
                        c = x[1]
                        key = str(int(c)) if isinstance(c, bool) else str(c)
                        if key in t["values"]:
                            feas.add(t["targets"][t["values"].index(key)])
                        else:
                            feas.add(t["otherwise"])
                    else:
                        feas = set(t["targets"]) | {t["otherwise"]}
                        break
                succs = sorted(feas)
            elif k == "call":
                c = m.callee(t) or {}
                vals = [self.operand(env, a) for a in t["args"]]
                g = self.prog.fn(c.get("resolved") or c.get("path", "")) if c else None
                if g is None and c.get("path"):
                    g = self.prog.fn(c["path"])
                if g is None and c.get("trait") in ("std::ops::Fn", "std::ops::FnMut", "std::ops::FnOnce") and len(vals) == 2:
                    # a call of a local closure (`let modify = |val: &mut usize, adj| ..; modify(&mut *x, d)`): the closure body
                    # with the components of the argument tuple as its arguments
                    a0 = t["args"][0]
                    tys = ""
                    if a0.get("k") in ("copy", "move"):
                        tys = m.local_ty_str(a0["p"]["l"]) or ""
                        sd0 = m.single_def(a0["p"]["l"]) if not a0["p"]["proj"] else None
                        if sd0 and sd0[2] == "assign" and sd0[3]["k"] == "ref":
                            tys = m.local_ty_str(sd0[3]["p"]["l"]) or tys
                    mm_ = re.search(r"closure@[^:]+:(\d+):", tys)
                    cands = [cf for cf in self.prog.closures_of.get(fn.path, []) if cf.mir and mm_ and cf.line == int(mm_.group(1))]
                    if len(cands) == 1 and vals[1] and vals[1][0] == "T":
                        g = cands[0]
                        vals = [vals[0]] + list(vals[1][1])
                if g is not None and g.kind == "Closure" and c.get("trait") in ("std::ops::Fn", "std::ops::FnMut", "std::ops::FnOnce") \
                        and len(vals) == 2 and vals[1] and vals[1][0] == "T":
                    vals = [vals[0]] + list(vals[1][1])      # closure bodies take the argument tuple spread out
                if g is not None and g.mir is not None and g is not fn:
                    out = self.run(g, vals, depth + 1)
                else:
                    out = TOP
                    for v in vals:
                        for x in members(v):
                            if x[0] in ("RS", "RF"):
                                # an opaque callee receives a reference into self
                                self.effects.add((x[1] if x[0] == "RF" else "*", x[2] if x[0] == "RF" else "*", "=", TOP))
                self.store(env, self.lval(env, t["dest"]), out, t.get("line", 0))
                if t.get("target") is not None:
                    succs = [t["target"]]
            elif k in ("assert", "drop", "falseedge", "falseunwind"):
                if t.get("target") is not None:
                    succs = [t["target"]]
            elif k == "return":
                ret = join(ret, env.get(0, TOP))
            else:
                succs = [x for x in m.succs(b)]
            for s_ in succs:
                if s_ in instate:
                    merged = {}
                    old = instate[s_]
                    for l in set(old) | set(env):
                        merged[l] = join(old.get(l), env.get(l))
                    instate[s_] = merged
                else:
                    instate[s_] = dict(env)
        return ret if ret != BOT else TOP


def net_effects(prog, fn, enum_path):
    """{(variant, field): {(op, amount)}} of calling `fn(&mut self, P1, P2, ..)`, or None when undecidable."""
    n = Net(prog, enum_path)
    nargs = fn.mir.arg_count
    args = [("RS",)] + [("P", i) for i in range(1, nargs)]
    n.run(fn, args)
    if n.undecided:
        return None, n.notes
    out = {}
    for var, fld, op, amt in n.effects:
        out.setdefault((var, fld), set()).add((op, amt))
    return out, n.notes
