"""Developer tool: evaluate one function with engine A and print the bindings."""
import sys
from . import runner, coord
from .facts import Program

def main():
    cfg, suffix = sys.argv[1], sys.argv[2]
    root = "/repo"
    if "--root" in sys.argv:
        root = sys.argv[sys.argv.index("--root") + 1]
    prog = Program(runner.get_facts(cfg, root))
    ctx = coord.Ctx(prog, {})
    fns = [f for f in prog.user_fns() if f.kind != "Closure" and f.hir and f.module not in coord.ARMED_EXCLUDE_MODULES]
    for _ in range(2):
        for fn in fns:
            coord.FnEval(ctx, fn, report=False).run()
        ctx.ret_memo = {}
    for fn in prog.find(suffix) or [f for f in prog.fn_list if suffix in f.path and f.kind != "Closure"]:
        ev = coord.FnEval(ctx, fn, report=True)
        r = ev.run()
        print("fn", fn.path, "->", coord.show(r))
        for hid, v in sorted(ev.env.items()):
            print("   %4d %-22s %s" % (hid, ev.names.get(hid), coord.show(v)))
    for k, v in sorted(ctx.fields.items()):
        if suffix.split("::")[0] in k[0] or "--fields" in sys.argv:
            print("field", k, coord.show(v))
    for f in ctx.findings:
        print("FINDING", f[0], f[1].path, f[2], f[3][:200])

main()
