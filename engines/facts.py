"""Wrappers over the JSON facts exported by the simlint driver (resolved program)."""
import re
from collections import defaultdict


_GEN = re.compile(r"::<[^<>]*(?:<[^<>]*(?:<[^<>]*>[^<>]*)*>[^<>]*)*>")


def short_path(p):
    """Definition path with generic argument lists removed: `Foo::<'a, T>::bar` -> `Foo::bar`
    (impl headers `<X<..> as Trait>::m` are kept, only `::<..>` segments are dropped)."""
    prev = None
    while prev != p:
        prev = p
        p = _GEN.sub("", p)
    return p


def norm_path(p):
    """short_path with lifetimes removed from impl headers: stable under renaming of lifetimes / generic spelling."""
    p = short_path(p)
    p = re.sub(r"'[A-Za-z_]\w*(, )?", "", p)
    p = p.replace("<>", "")
    return p


class Program:
    def __init__(self, facts):
        from .rename import canonicalise
        if "_renamed" not in facts:
            facts = canonicalise(facts)      # renamed private anchors -> the names the rule tables know (engines/rename.py)
        self.renamed = facts.get("_renamed", [])
        self.raw = facts
        self.crate = facts["crate"]
        self.features = facts["features"]
        self.config = facts.get("_config", "?")
        self.fns = {}
        self.fn_list = []
        for f in facts["fns"]:
            fn = Fn(f, self)
            self.fn_list.append(fn)
            # several derive-generated fns may share a pretty path; keep the first
            self.fns.setdefault(fn.path, fn)
        self.adts = {a["path"]: a for a in facts["items"]["adts"]}
        self.impls = facts["items"]["impls"]
        self.traits = {t["path"]: t for t in facts["items"]["traits"]}
        self.closures_of = defaultdict(list)
        for fn in self.fn_list:
            if fn.kind == "Closure":
                self.closures_of[fn.raw.get("closure_of")].append(fn)

    def fn(self, path):
        return self.fns.get(path)

    def find(self, suffix):
        """Functions whose path ends with `suffix` (module-qualified); generic argument lists are ignored.  A private
        function that the rules know by name and that has been renamed is found through its structural role."""
        sfx = short_path(suffix)
        out = [f for f in self.fn_list if f.spath == sfx or f.spath.endswith("::" + sfx)]
        if not out:
            for canon, f in self.roles().items():
                if canon == sfx or canon.endswith("::" + sfx):
                    out.append(f)
        return out

    # ---- structural roles of private functions (rename-robust anchors) ------------------------------------------
    def roles(self):
        """{canonical path: Fn} for the private functions the rule tables mention by name, discovered by what they do
        rather than by what they are called.  When the original name still exists it wins."""
        if getattr(self, "_roles", None) is not None:
            return self._roles
        roles = {}
        by_mod = defaultdict(list)
        for f in self.fn_list:
            if f.kind != "Closure" and not f.is_derived():
                by_mod[f.module].append(f)

        def calls(f, suffix):
            if not f.mir:
                return False
            return any(short_path((f.mir.callee(t) or {}).get("path", "")).endswith(suffix) for _, t in f.mir.calls())

        def out_str(f):
            sig = f.raw.get("sig") or {}
            return (sig.get("output_str") or str(sig.get("output") or "")) if isinstance(sig, dict) else ""

        def pick(canon, cands):
            named = [f for f in self.fn_list if f.spath == canon]
            if named:
                roles[canon] = named[0]
            elif len(cands) == 1:
                roles[canon] = cands[0]

        comp = [f for f in by_mod.get("algorithms::compact", []) if not f.impl and f.hir]
        pick("algorithms::compact::shift_diff_ops_up",
             [f for f in comp if calls(f, "DiffOp::shift_left") and calls(f, "DiffOp::tag")])
        pick("algorithms::compact::shift_diff_ops_down",
             [f for f in comp if calls(f, "DiffOp::shift_right") and calls(f, "DiffOp::tag")])
        up, down = roles.get("algorithms::compact::shift_diff_ops_up"), roles.get("algorithms::compact::shift_diff_ops_down")
        if up is not None and down is not None:
            pick("algorithms::compact::cleanup_diff_ops",
                 [f for f in comp if f is not up and f is not down and f.mir and
                  any((f.mir.callee(t) or {}).get("path") in (up.path, down.path) or
                      short_path((f.mir.callee(t) or {}).get("path", "")) in (up.spath, down.spath) for _, t in f.mir.calls())])
        lcs = [f for f in by_mod.get("algorithms::lcs", []) if not f.impl and f.hir]
        pick("algorithms::lcs::make_table", [f for f in lcs if "Map<" in out_str(f) and "Option" in out_str(f)])
        my = [f for f in by_mod.get("algorithms::myers", []) if not f.impl and f.hir]
        snake = [f for f in my if out_str(f).replace(" ", "").endswith("Option<(usize,usize)>")]
        pick("algorithms::myers::find_middle_snake", snake)
        sn = roles.get("algorithms::myers::find_middle_snake")
        if sn is not None:
            pick("algorithms::myers::conquer",
                 [f for f in my if f is not sn and f.mir and any((f.mir.callee(t) or {}).get("path") == f.path or
                                                                short_path((f.mir.callee(t) or {}).get("path", "")) == f.spath
                                                                for _, t in f.mir.calls())])
        inl = [f for f in by_mod.get("text::inline", []) if f.hir]
        pick("text::inline::push_values",
             [f for f in inl if not f.impl and any(pp.get("ty") == "bool" for pp in f.hir.get("params", [])) and
              any("Vec<std::vec::Vec<(bool" in (pp.get("ty") or "").replace(" ", "").replace("Vec<Vec", "Vec<std::vec::Vec") or
                  "Vec<Vec<(bool" in (pp.get("ty") or "").replace(" ", "") for pp in f.hir.get("params", []))])
        pick("text::inline::MultiLookup::get_original_slices",
             [f for f in inl if f.impl and "MultiLookup" in str(f.impl.get("self_ty")) and
              out_str(f).replace(" ", "").startswith(("std::vec::Vec<(usize,", "Vec<(usize,"))])
        self._roles = roles
        return roles

    def canon(self, path):
        """Canonical (rule-table) short path of a function: its role name if it plays one, else its own short path."""
        sp = short_path(path)
        for canon, f in self.roles().items():
            if f.spath == sp or f.path == path:
                return canon
        return sp

    def trait_impls(self, trait_path):
        return [i for i in self.impls if i["trait"] and i["trait"]["path"] == trait_path]

    def user_fns(self):
        """Functions not generated by derive macros / serde."""
        return [f for f in self.fn_list if not f.is_derived()]


class Fn:
    def __init__(self, raw, prog):
        self.raw = raw
        self.prog = prog
        self.path = raw["path"]
        self.spath = short_path(self.path)
        self.kind = raw["kind"]
        self.file = raw["file"]
        self.line = raw["line"]
        self.name = raw.get("name") or self.path.rsplit("::", 1)[-1]
        self.impl = raw.get("impl")
        self.sig = raw.get("sig")
        self.hir = raw.get("hir")
        self.generics = raw.get("generics", [])
        self.mir = Mir(raw["mir"], self) if raw.get("mir") else None
        self.public = raw.get("vis_public", False)

    def is_derived(self):
        p = self.path
        if "_serde" in p or "::_::" in p:
            return True
        if self.impl and self.impl.get("trait"):
            t = self.impl["trait"]
            if t in DERIVE_TRAITS and self.name in DERIVE_METHODS:
                # a hand-written impl of these traits has real statements at its own lines;
                # derives have every span inside the expansion -> all call terminators `exp`.
                if self.mir and all(t_.get("exp", True) for _, t_ in self.mir.calls()) and self._all_stmt_exp():
                    return True
        return False

    def _all_stmt_exp(self):
        for b in self.mir.blocks:
            for s in b["stmts"]:
                if s.get("k") == "assign" and not s.get("exp", False):
                    return False
        return True

    @property
    def module(self):
        """Source module inferred from the file path: src/algorithms/lcs.rs -> algorithms::lcs"""
        f = self.file
        f = re.sub(r"^.*?src/", "", f)
        f = re.sub(r"\.rs$", "", f)
        f = re.sub(r"/mod$", "", f)
        return f.replace("/", "::")

    def __repr__(self):
        return "<Fn %s>" % self.path


DERIVE_TRAITS = {
    "std::fmt::Debug", "std::clone::Clone", "std::cmp::PartialEq", "std::cmp::Eq", "std::hash::Hash",
    "std::cmp::Ord", "std::cmp::PartialOrd", "std::default::Default", "std::marker::Copy",
}
DERIVE_METHODS = {"fmt", "clone", "eq", "ne", "assert_fields_are_eq", "assert_receiver_is_total_eq", "hash", "cmp",
                  "partial_cmp", "default"}


def targs(c):
    """Type/const generic arguments of a callee (lifetime placeholders removed)."""
    return [a for a in c.get("args", []) if not (isinstance(a, dict) and a.get("k") == "lt")]


def place_key(p):
    """Hashable rendering of a place."""
    parts = [str(p["l"])]
    for e in p["proj"]:
        if e == "deref":
            parts.append("*")
        elif "field" in e:
            parts.append(".%s" % (e.get("name") or e["field"]))
        elif "index" in e:
            parts.append("[_%d]" % e["index"])
        elif "downcast" in e:
            parts.append("@%s" % e["downcast"])
        elif "const_index" in e:
            parts.append("[c%d]" % e["const_index"])
        else:
            parts.append("?")
    return "".join(parts)


def const_int(op):
    """Integer value of a constant operand (`const 0_usize`), else None."""
    if not op or op.get("k") != "const":
        return None
    m = re.match(r"^(?:const )?(-?\d+)(?:_[iu](?:8|16|32|64|128|size))?$", op.get("val", ""))
    if m:
        return int(m.group(1))
    if op.get("val") in ("const false", "false"):
        return 0
    if op.get("val") in ("const true", "true"):
        return 1
    return None


class Mir:
    def __init__(self, raw, fn):
        self.raw = raw
        self.fn = fn
        self.blocks = raw["blocks"]
        self.locals = raw["locals"]
        self.arg_count = raw["arg_count"]
        self.n = len(self.blocks)
        # shadowed variables (`let old_idx = if .. { .. } else { old_idx };`) are different locals with one name: terms
        # are rendered by name, so later namesakes get a distinguishing suffix (the first keeps the plain name)
        if not raw.get("_names_disambiguated"):
            seen = {}
            for l, decl in enumerate(self.locals):
                nm = decl.get("name")
                if not nm:
                    continue
                seen[nm] = seen.get(nm, 0) + 1
                if seen[nm] > 1:
                    decl["name"] = "%s'%d" % (nm, seen[nm])
            raw["_names_disambiguated"] = True
        self._succ = None
        self._pred = None
        self._dom = None
        self._defs = None

    # ---- CFG ------------------------------------------------------------
    def term(self, bb):
        return self.blocks[bb]["term"]

    def succs(self, bb):
        """Normal (non-unwind) successors."""
        if self._succ is None:
            self._succ = [self._succs_of(i) for i in range(self.n)]
        return self._succ[bb]

    def _succs_of(self, bb):
        t = self.blocks[bb]["term"]
        k = t["k"]
        if k == "goto":
            return [t["target"]]
        if k == "switch":
            out = list(t["targets"]) + [t["otherwise"]]
            res = []
            for x in out:
                if x not in res:
                    res.append(x)
            return res
        if k in ("call",):
            return [t["target"]] if t["target"] is not None else []
        if k in ("drop", "assert"):
            return [t["target"]]
        if k == "other":
            # conservatively parse targets out of the debug string
            return [int(x) for x in re.findall(r"bb(\d+)", t.get("dbg", ""))]
        return []

    def preds(self, bb):
        if self._pred is None:
            self._pred = [[] for _ in range(self.n)]
            for i in range(self.n):
                for s in self.succs(i):
                    self._pred[s].append(i)
        return self._pred[bb]

    def reachable(self, start=0):
        seen = {start}
        st = [start]
        while st:
            b = st.pop()
            for s in self.succs(b):
                if s not in seen:
                    seen.add(s)
                    st.append(s)
        return seen

    def reach_from(self, starts, stop=()):
        seen = set()
        st = list(starts)
        while st:
            b = st.pop()
            if b in seen or b in stop:
                continue
            seen.add(b)
            st.extend(self.succs(b))
        return seen

    def dominators(self):
        """dom[b] = set of blocks dominating b (for reachable blocks)."""
        if self._dom is None:
            reach = self.reachable(0)
            order = sorted(reach)
            dom = {b: set(order) for b in order}
            dom[0] = {0}
            changed = True
            while changed:
                changed = False
                for b in order:
                    if b == 0:
                        continue
                    ps = [p for p in self.preds(b) if p in reach]
                    if not ps:
                        continue
                    new = set.intersection(*[dom[p] for p in ps]) | {b}
                    if new != dom[b]:
                        dom[b] = new
                        changed = True
            self._dom = dom
        return self._dom

    def dominates(self, a, b):
        d = self.dominators()
        return b in d and a in d[b]

    def back_edges(self):
        d = self.dominators()
        res = []
        for b in d:
            for s in self.succs(b):
                if s in d[b]:
                    res.append((b, s))
        return res

    def loops(self):
        """Natural loops: list of (header, set(body blocks))."""
        by_header = defaultdict(set)
        for (tail, head) in self.back_edges():
            body = {head}
            st = [tail]
            while st:
                x = st.pop()
                if x in body:
                    continue
                body.add(x)
                st.extend(self.preds(x))
            by_header[head] |= body
        return sorted(by_header.items())

    def returns(self):
        return [i for i in self.reachable(0) if self.blocks[i]["term"]["k"] == "return"]

    # ---- instructions ---------------------------------------------------
    def calls(self):
        for i, b in enumerate(self.blocks):
            t = b["term"]
            if t["k"] == "call":
                yield i, t

    def callee(self, t):
        f = t["func"]
        return f.get("fn") if f.get("k") == "const" else None

    def local_name(self, l):
        return self.locals[l].get("name")

    def local_ty(self, l):
        return self.locals[l]["ty"]

    def local_ty_str(self, l):
        return self.locals[l]["ty_str"]

    def defs(self):
        """local -> list of (bb, idx|'term', kind, payload) for whole-local definitions."""
        if self._defs is None:
            d = defaultdict(list)
            for i, b in enumerate(self.blocks):
                for j, s in enumerate(b["stmts"]):
                    if s["k"] == "assign" and not s["p"]["proj"]:
                        d[s["p"]["l"]].append((i, j, "assign", s["rv"]))
                t = b["term"]
                if t["k"] == "call" and not t["dest"]["proj"]:
                    d[t["dest"]["l"]].append((i, "term", "call", t))
            self._defs = d
        return self._defs

    def single_def(self, l):
        ds = self.defs().get(l, [])
        if len(ds) == 1:
            return ds[0]
        return None

    def resolve_place(self, place, depth=12):
        """Follow compiler temporaries backwards: returns a symbolic term for the value in `place`.

        Terms: ('local', name, proj...) for user variables / args, ('const', v), ('call', callee, [terms]),
               ('ref', term), ('binop', op, l, r), ('field', term, name), ('deref', term), ('unknown',)
        """
        l = place["l"]
        base = self._resolve_local(l, depth)
        for e in place["proj"]:
            if e == "deref":
                if base[0] == "ref":
                    base = base[1]
                else:
                    base = ("deref", base)
            elif isinstance(e, dict) and "field" in e:
                nm = e.get("name") or str(e["field"])
                if base[0] == "aggregate" and nm in base[2]:
                    base = base[2][nm]
                else:
                    base = ("field", base, nm)
            elif isinstance(e, dict) and "downcast" in e:
                base = ("downcast", base, e["downcast"])
            elif isinstance(e, dict) and "index" in e:
                base = ("index", base, self._resolve_local(e["index"], depth))
            else:
                base = ("proj", base, str(e))
        return base

    def _resolve_local(self, l, depth):
        name = self.local_name(l)
        if name is not None or l <= self.arg_count:
            return ("local", name or ("_%d" % l), l)
        if depth <= 0:
            return ("temp", l)
        sd = self.single_def(l)
        if sd is None:
            return ("temp", l)
        bb, idx, kind, payload = sd
        if kind == "call":
            cal = self.callee(payload)
            return ("call", cal["path"] if cal else "?", [self.resolve_operand(a, depth - 1) for a in payload["args"]],
                    cal, bb)
        return self.resolve_rvalue(payload, depth - 1)

    def expand(self, term, depth=8, seen=frozenset()):
        """Expand named (user) locals that have a single definition, recursively."""
        if not isinstance(term, tuple):
            if isinstance(term, list):
                return [self.expand(x, depth, seen) for x in term]
            if isinstance(term, dict) and "path" not in term:
                return {k: self.expand(v, depth, seen) for k, v in term.items()}
            return term
        if term and term[0] == "local" and len(term) > 2 and isinstance(term[2], int) and term[2] > self.arg_count \
                and depth > 0 and term[2] not in seen:
            sd = self.single_def(term[2])
            if sd is not None:
                bb, idx, kind, payload = sd
                if kind == "call":
                    cal = self.callee(payload)
                    inner = ("call", cal["path"] if cal else "?", [self.resolve_operand(a) for a in payload["args"]], cal, bb)
                else:
                    inner = self.resolve_rvalue(payload)
                return self.expand(inner, depth - 1, seen | {term[2]})
            return term
        return tuple(self.expand(x, depth, seen) if isinstance(x, (tuple, list, dict)) else x for x in term)

    def resolve_rvalue(self, rv, depth=12):
        k = rv["k"]
        if k == "use":
            return self.resolve_operand(rv["op"], depth)
        if k == "ref":
            return ("ref", self.resolve_place(rv["p"], depth))
        if k == "binop":
            return ("binop", rv["op"], self.resolve_operand(rv["l"], depth), self.resolve_operand(rv["r"], depth))
        if k == "unop":
            return ("unop", rv["op"], self.resolve_operand(rv["x"], depth))
        if k == "cast":
            return ("cast", self.resolve_operand(rv["op"], depth), rv["ty"])
        if k == "aggregate":
            ops = [self.resolve_operand(o, depth) for o in rv["ops"]]
            if rv["ak"] == "adt":
                return ("aggregate", rv["adt"] + "::" + rv["variant"], dict(zip(rv["fields"], ops)))
            if rv["ak"] == "tuple":
                return ("aggregate", "tuple", {str(i): o for i, o in enumerate(ops)})
            return ("aggregate", rv["ak"], {str(i): o for i, o in enumerate(ops)})
        if k == "discr":
            return ("discr", self.resolve_place(rv["p"], depth))
        return ("unknown", k)

    def resolve_operand(self, op, depth=12):
        k = op["k"]
        if k in ("copy", "move"):
            return self.resolve_place(op["p"], depth)
        if k == "const":
            ci = const_int(op)
            if ci is not None and not op.get("fn"):
                return ("const", ci, op.get("ty"))
            if op.get("fn"):
                return ("fnptr", op["fn"]["path"])
            return ("const", op.get("val"), op.get("ty"))
        return ("unknown", k)


def lift_upvars(prog, cf, term):
    """A term of a closure body with every captured variable (`(*_1).N`, a slot of the closure environment) replaced by
    the operand the closure was built with in its parent: (parent fn, lifted term, replaced anything?)."""
    parent = prog.fn(cf.raw.get("closure_of") or "")
    if parent is None or not parent.mir:
        return None, term, False
    pm = parent.mir
    ops = None
    for b in pm.blocks:
        for s_ in b["stmts"]:
            if s_["k"] == "assign" and s_["rv"]["k"] == "aggregate" and s_["rv"].get("ak") == "closure" and s_["rv"].get("closure") == cf.path:
                ops = s_["rv"]["ops"]
    if ops is None:
        return parent, term, False
    hit = [False]

    def lift(t):
        if isinstance(t, tuple) and t and t[0] == "field" and str(t[2]).isdigit():
            base = t[1]
            while isinstance(base, tuple) and base and base[0] in ("ref", "deref"):
                base = base[1]
            if isinstance(base, tuple) and base and base[0] == "local" and base[2] == 1 and int(t[2]) < len(ops):
                hit[0] = True
                return pm.resolve_operand(ops[int(t[2])])
        if isinstance(t, tuple):
            return tuple(lift(x) if isinstance(x, (tuple, list)) else x for x in t)
        if isinstance(t, list):
            return [lift(x) for x in t]
        return t
    return parent, lift(term), hit[0]


def term_str(t, depth=0):
    """Human-readable rendering of a resolved term."""
    if not isinstance(t, tuple):
        return str(t)
    k = t[0]
    if k == "local":
        return str(t[1])
    if k == "const":
        return str(t[1])
    if k == "call":
        short = t[1].rsplit("::", 1)[-1]
        return "%s(%s)" % (short, ", ".join(term_str(a) for a in t[2]))
    if k == "ref":
        return "&" + term_str(t[1])
    if k == "deref":
        return "*" + term_str(t[1])
    if k == "field":
        return "%s.%s" % (term_str(t[1]), t[2])
    if k == "binop":
        sym = {"Add": "+", "Sub": "-", "Mul": "*", "Div": "/", "Lt": "<", "Le": "<=", "Gt": ">", "Ge": ">=", "Eq": "==",
               "Ne": "!=", "AddWithOverflow": "+", "SubWithOverflow": "-", "MulWithOverflow": "*"}.get(t[1], t[1])
        return "(%s %s %s)" % (term_str(t[2]), sym, term_str(t[3]))
    if k == "cast":
        return "%s as %s" % (term_str(t[1]), t[2])
    if k == "aggregate":
        return "%s{%s}" % (t[1].rsplit("::", 2)[-1] if t[1] != "tuple" else "", ", ".join("%s: %s" % (a, term_str(b)) for a, b in t[2].items()))
    if k == "index":
        return "%s[%s]" % (term_str(t[1]), term_str(t[2]))
    if k == "downcast":
        return "%s as %s" % (term_str(t[1]), t[2])
    if k == "temp":
        return "_%d" % t[1]
    return str(t)


def walk_hir(node, fn):
    """Pre-order walk over HIR expression/pattern/block JSON; calls fn(node) for dict nodes with key 'k'."""
    if isinstance(node, dict):
        if "k" in node:
            fn(node)
        for v in node.values():
            walk_hir(v, fn)
    elif isinstance(node, list):
        for v in node:
            walk_hir(v, fn)
