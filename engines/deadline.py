"""Engine C: deadline plumbing and probe placement (MIR)."""
from .core import RuleResult
from .facts import term_str, targs, norm_path
from .callgraph import peel, ty_head
from . import effects

PROBE = "deadline_support::deadline_exceeded"
DUR2DL = "deadline_support::duration_to_deadline"


def is_instant(t):
    return isinstance(t, dict) and t.get("k") == "adt" and t["path"].endswith("::Instant")


def is_deadline_enum(t):
    return isinstance(t, dict) and t.get("k") == "adt" and t["path"] == "text::Deadline"


def is_opt_of(t, pred):
    if isinstance(t, dict) and t.get("k") == "adt" and t["path"] == "std::option::Option":
        a = [x for x in t["args"] if x.get("k") != "lt"]
        return len(a) == 1 and pred(a[0])
    return False


def is_deadline_ty(t):
    t = peel(t)
    return is_opt_of(t, is_instant) or is_opt_of(t, is_deadline_enum) or is_instant(t) or is_deadline_enum(t)


def is_deadline_param_ty(t):
    return is_opt_of(t, is_instant)


class DL:
    def __init__(self, prog):
        self.prog = prog
        self.carriers = {}     # fn path -> {"params": [local idx], "field": bool}
        self.deadline_structs = {}   # adt path -> [field names of deadline type]
        for path, a in prog.adts.items():
            fs = []
            for v in a["variants"]:
                for f in v["fields"]:
                    if is_opt_of(f["ty"], is_instant) or is_opt_of(f["ty"], is_deadline_enum):
                        fs.append(f["name"])
            if fs and a["kind"] == "struct":
                self.deadline_structs[path] = fs
        for fn in prog.user_fns():
            if not fn.mir or fn.kind == "Closure" or not fn.sig:
                continue
            if fn.module == "deadline_support":
                continue
            ps = [i + 1 for i, t in enumerate(fn.sig["inputs"]) if is_deadline_param_ty(t)]
            field = False
            if fn.sig["inputs"]:
                h = ty_head(fn.sig["inputs"][0])
                # methods of a struct that stores a deadline, taking self
                if h in self.deadline_structs and fn.impl is not None and self._is_self_param(fn):
                    field = True
            if ps or field:
                self.carriers[fn.path] = {"params": ps, "field": field,
                                          "struct": ty_head(fn.sig["inputs"][0]) if field else None}

    def _is_self_param(self, fn):
        try:
            return fn.hir["params"][0]["pat"].get("name") == "self"
        except Exception:
            return False

    CONV_CALLEES = ("std::option::Option::<T>::and_then", "std::option::Option::<T>::map", "std::option::Option::<T>::copied",
                    "std::option::Option::<T>::cloned", "std::clone::Clone::clone", "std::option::Option::<T>::or",
                    "std::option::Option::<T>::filter", "text::Deadline::into_instant", "std::option::Option::<T>::as_ref",
                    "std::ops::Try::branch", "std::ops::FromResidual::from_residual")

    def is_conversion(self, fn, depth=0):
        """A deadline conversion function: returns a deadline-typed value, takes only self / deadline-typed parameters,
        and calls nothing but Option combinators, Deadline::into_instant and other conversion functions (so it can only
        rewrap the deadline it was given: `match self.deadline { Some(d) => d.into_instant(), None => None }`)."""
        memo = self.__dict__.setdefault("_conv", {})
        if fn.path in memo:
            return memo[fn.path]
        memo[fn.path] = False
        ok = bool(fn.mir and fn.sig and fn.kind != "Closure" and fn.module != "deadline_support" and
                  is_deadline_ty(fn.sig.get("output")) and depth < 3)
        if ok:
            for i, t in enumerate(fn.sig["inputs"]):
                if i == 0 and self._is_self_param(fn):
                    continue
                if not is_deadline_ty(t):
                    ok = False
        if ok:
            for bb, t in fn.mir.calls():
                c = fn.mir.callee(t) or {}
                if c.get("path") in self.CONV_CALLEES:
                    continue
                g = self.prog.fn(c.get("path", "")) if c.get("local") else None
                if g is not None and g is not fn and self.is_conversion(g, depth + 1):
                    continue
                ok = False
                break
        memo[fn.path] = ok
        return ok

    def callee_deadline_positions(self, c):
        """Positions (0-based arg index) of Option<Instant> parameters of a local callee."""
        g = None
        if c.get("local") and not c.get("trait"):
            g = self.prog.fn(c["path"])
        elif c.get("resolved_local"):
            g = self.prog.fn(c["resolved"])
        if g is None or not g.sig:
            return g, []
        return g, [i for i, t in enumerate(g.sig["inputs"]) if is_deadline_param_ty(t)]

    # -- provenance ------------------------------------------------------------
    def derives(self, fn, term, seen=None):
        """Classify the origin of a deadline-typed value: 'carrier' | 'none' | 'fresh' | 'unknown'."""
        m = fn.mir
        info = self.carriers.get(fn.path, {"params": [], "field": False})
        seen = seen or set()
        if term is None:
            return "unknown"
        k = term[0]
        if k in ("ref", "deref", "cast"):
            return self.derives(fn, term[1], seen)
        if k == "local":
            l = term[2]
            if l in info["params"]:
                return "carrier"
            if 1 <= l <= m.arg_count:
                # another parameter (e.g. `self` handled through field)
                return "unknown"
            if l in seen:
                return "carrier"   # loop through a variable: decided by the other defs
            seen = seen | {l}
            ds = m.defs().get(l, [])
            if not ds:
                return "unknown"
            res = set()
            for bb, idx, kind, payload in ds:
                if kind == "call":
                    res.add(self._derives_call(fn, payload, seen))
                else:
                    res.add(self.derives(fn, m.resolve_rvalue(payload), seen))
            if res == {"carrier"}:
                return "carrier"
            if res == {"carrier", "none"} and (self.is_conversion(fn) or self._none_under_carrier_switch(fn, l, seen)) and \
                    self._reads_carrier_discr(fn):
                # `match self.deadline { Some(d) => d.into_instant(), None => None }`: the None arm is the carrier's own None
                return "carrier"
            for bad in ("none", "fresh", "unknown"):
                if bad in res:
                    return bad
            return "unknown"
        if k == "field":
            base = term[1]
            while base[0] in ("deref", "ref"):
                base = base[1]
            if base[0] == "downcast" and str(term[2]) == "0":
                return self.derives(fn, base[1], seen)      # the payload of `Some(..)` of a deadline option
            if base[0] == "local" and base[2] == 1 and info["field"] and term[2] in self.deadline_structs.get(info["struct"], []):
                return "carrier"
            return "unknown"
        if k == "aggregate":
            if term[1].endswith("Option::None"):
                return "none"
            if term[1].endswith("Option::Some"):
                return self.derives(fn, term[2].get("0"), seen)
            return "unknown"
        if k == "call":
            return self._derives_call_term(fn, term, seen)
        if k == "downcast":
            return self.derives(fn, term[1], seen)
        return "unknown"

    def derives_in(self, body, term, depth=0):
        """derives() for a body that may be a closure of a carrier: a captured variable (`(*_1).N`, a slot of the
        closure environment, anywhere inside the term: `(*(*_1).0).deadline`) is replaced by the operand the closure was
        built with, and the result is classified in the parent."""
        if body.kind != "Closure":
            return self.derives(body, term)
        parent = self.prog.fn(body.raw.get("closure_of") or "")
        if parent is None or not parent.mir or depth > 4:
            return "unknown"
        pm = parent.mir
        ops = None
        for b in pm.blocks:
            for s_ in b["stmts"]:
                if s_["k"] == "assign" and s_["rv"]["k"] == "aggregate" and s_["rv"].get("ak") == "closure" and \
                        s_["rv"].get("closure") == body.path:
                    ops = s_["rv"]["ops"]
        if ops is None:
            return "unknown"
        hit = [False]

        def lift(t):
            if isinstance(t, tuple) and t and t[0] == "field" and str(t[2]).isdigit():
                base = t[1]
                while isinstance(base, tuple) and base and base[0] in ("ref", "deref"):
                    base = base[1]
                if isinstance(base, tuple) and base and base[0] == "local" and base[2] == 1 and int(t[2]) < len(ops):
                    hit[0] = True
                    return pm.resolve_operand(ops[int(t[2])])
            if isinstance(t, tuple):
                return tuple(lift(x) if isinstance(x, (tuple, list)) else x for x in t)
            if isinstance(t, list):
                return [lift(x) for x in t]
            return t

        m = body.mir
        t0 = term
        # a local of the closure is looked through first (`let deadline = self.deadline;`)
        ts = t0
        while isinstance(ts, tuple) and ts and ts[0] in ("ref", "deref", "cast"):
            ts = ts[1]
        if isinstance(ts, tuple) and ts and ts[0] == "local" and isinstance(ts[2], int) and ts[2] > 1:
            ds = m.defs().get(ts[2], [])
            res = {self.derives_in(body, m.resolve_rvalue(p_), depth + 1) if k_ != "call" else "unknown" for _, _, k_, p_ in ds}
            return "carrier" if res == {"carrier"} else "unknown"
        lifted = lift(t0)
        if not hit[0]:
            return "unknown"
        return self.derives_in(parent, lifted, depth + 1)

    def carrier_switch_blocks(self, fn):
        """blocks that end in a switch on the discriminant of a value derived from the carrier's deadline"""
        memo = self.__dict__.setdefault("_csb", {})
        if fn.path not in memo:
            m = fn.mir
            out = set()
            memo[fn.path] = out
            for bi, b in enumerate(m.blocks):
                sw = b["term"]
                if sw["k"] != "switch" or sw.get("discr", {}).get("k") not in ("copy", "move"):
                    continue
                for s_ in b["stmts"]:
                    if s_["k"] == "assign" and s_["rv"]["k"] == "discr" and s_["p"]["l"] == sw["discr"]["p"]["l"]:
                        if self.derives(fn, m.resolve_place(s_["rv"]["p"])) == "carrier":
                            out.add(bi)
        return memo[fn.path]

    def _none_under_carrier_switch(self, fn, l, seen):
        """every `None` stored into local l sits below a match on the carrier's own deadline (its None arm rewrapped)"""
        m = fn.mir
        sws = self.carrier_switch_blocks(fn)
        if not sws:
            return False
        for bb, idx, kind, payload in m.defs().get(l, []):
            cls = self._derives_call(fn, payload, seen | {l}) if kind == "call" else self.derives(fn, m.resolve_rvalue(payload), seen | {l})
            if cls == "none" and not any(m.dominates(sb, bb) and sb != bb for sb in sws):
                return False
        return True

    def inline_conversion(self, fn, sb):
        """The switch at block sb only rewraps the deadline: every block between it and the point where its arms meet
        again does nothing but move values and call deadline conversions."""
        m = fn.mir
        succ = [x for x in dict.fromkeys(m.succs(sb)) if m.blocks[x]["term"]["k"] != "unreachable"]
        if len(succ) < 2:
            return False
        reaches = [m.reach_from([s_]) for s_ in succ]
        common = set.intersection(*reaches)
        region = set().union(*reaches) - common
        if len(region) > 24:
            return False
        for b in region:
            t = m.blocks[b]["term"]
            if t["k"] == "call":
                c = m.callee(t) or {}
                p_ = c.get("path", "")
                g = self.prog.fn(p_) if c.get("local") else None
                if p_ in self.CONV_CALLEES or p_.startswith("deadline_support::") or (g is not None and self.is_conversion(g)):
                    continue
                return False
            if t["k"] not in ("goto", "switch", "assert", "unreachable"):
                return False
        return True

    def _reads_carrier_discr(self, fn):
        m = fn.mir
        for b in m.blocks:
            for s_ in b["stmts"]:
                if s_["k"] == "assign" and s_["rv"]["k"] == "discr":
                    if self.derives(fn, m.resolve_place(s_["rv"]["p"])) == "carrier":
                        return True
        return False

    def _derives_call(self, fn, t, seen):
        m = fn.mir
        c = m.callee(t)
        args = [m.resolve_operand(a) for a in t["args"]]
        return self._derives_callee(fn, c, args, seen)

    def _derives_call_term(self, fn, term, seen):
        return self._derives_callee(fn, term[3], term[2], seen)

    def _derives_callee(self, fn, c, args, seen):
        if not c:
            return "unknown"
        p = c["path"]
        if p == DUR2DL and args and self.derives(fn, args[0], seen) == "carrier":
            return "carrier"        # the duration is the payload of the carrier's own Deadline::Relative
        if p in (DUR2DL,) or p.endswith("::Instant::now") or p.endswith("Instant::checked_add"):
            return "fresh"
        if p in ("std::option::Option::<T>::and_then", "std::option::Option::<T>::map", "std::option::Option::<T>::copied",
                 "std::option::Option::<T>::cloned", "std::clone::Clone::clone", "std::option::Option::<T>::or",
                 "std::option::Option::<T>::filter"):
            return self.derives(fn, args[0], seen) if args else "unknown"
        if p == "text::Deadline::into_instant":
            return self.derives(fn, args[0], seen) if args else "unknown"
        g = self.prog.fn(p) if c.get("local") and not c.get("trait") else None
        if g is not None and self.is_conversion(g) and args:
            # a conversion helper: `self.effective_deadline()` on the caller's own self, or conv(<carrier value>)
            info = self.carriers.get(fn.path, {"params": [], "field": False})
            ginfo = self.carriers.get(g.path)
            a0 = args[0]
            while a0 and a0[0] in ("ref", "deref"):
                a0 = a0[1]
            if ginfo and ginfo.get("field") and info.get("field") and a0 and a0[0] == "local" and a0[2] == 1 and \
                    ginfo.get("struct") == info.get("struct"):
                rets = [self.derives(g, ("local", None, 0))]
                return "carrier" if rets == ["carrier"] else "unknown"
            cls = {self.derives(fn, a, seen) for a in args}
            return "carrier" if cls == {"carrier"} else "unknown"
        return "unknown"


_cache = {}


def dl(prog):
    if id(prog) not in _cache:
        _cache[id(prog)] = DL(prog)
    return _cache[id(prog)]


def rule_C1(prog):
    r = RuleResult("C1", "in every function that carries a deadline (an Option<Instant> parameter or a deadline "
                         "field of self), every call to a callee with a deadline parameter, and every struct literal "
                         "with a deadline field, receives a value derived from the carrier's own deadline -- never None "
                         "or a fresh instant; the documented originator (TextDiff::iter_inline_changes) passes a "
                         "freshly computed deadline")
    d = dl(prog)
    for path, info in sorted(d.carriers.items()):
        fn = prog.fn(path)
        m = fn.mir
        bodies = [fn] + [c for c in prog.closures_of.get(path, [])]
        for body in bodies:
            bm = body.mir
            for bb, t in bm.calls():
                c = bm.callee(t)
                if not c:
                    continue
                g, pos = d.callee_deadline_positions(c)
                if c["path"] == PROBE:
                    pos = [0]
                for i in pos:
                    r.instances += 1
                    term = bm.resolve_operand(t["args"][i])
                    cls = d.derives(body, term) if body is fn else d.derives_in(body, term)
                    ok = cls == "carrier"
                    r.ob(ok, "%s -> %s(deadline = %s): %s" % (path, c["path"].rsplit("::", 2)[-2] + "::" + c["path"].rsplit("::", 1)[-1],
                                                               term_str(term), cls))
                    if not ok:
                        r.find(path, "arg:%s:%s" % (c["path"], cls),
                               "%s passes %s (%s) as the deadline of %s instead of its own deadline" % (
                                   path, term_str(term), {"none": "None", "fresh": "a freshly computed instant",
                                                          "unknown": "a value not derived from its deadline"}[cls], c["path"]),
                               file=fn.file, line=t["line"])
            # struct literals with deadline fields
            for b in bm.blocks:
                for s in b["stmts"]:
                    if s["k"] == "assign" and s["rv"]["k"] == "aggregate" and s["rv"].get("ak") == "adt":
                        adt = s["rv"]["adt"]
                        if adt in d.deadline_structs:
                            for fname, op in zip(s["rv"]["fields"], s["rv"]["ops"]):
                                if fname in d.deadline_structs[adt]:
                                    r.instances += 1
                                    term = bm.resolve_operand(op)
                                    cls = d.derives(body, term)
                                    ok = cls == "carrier"
                                    r.ob(ok, "%s: %s{%s: %s}: %s" % (path, adt, fname, term_str(term), cls))
                                    if not ok:
                                        r.find(path, "field:%s.%s:%s" % (adt, fname, cls),
                                               "%s stores %s into %s.%s instead of its own deadline" % (path, term_str(term), adt, fname),
                                               file=fn.file, line=s["line"])
    # originators: functions documented to impose their own deadline
    for fn in prog.user_fns():
        if not fn.mir or fn.path in d.carriers or fn.kind == "Closure":
            continue
        for bb, t in fn.mir.calls():
            c = fn.mir.callee(t)
            if not c:
                continue
            g, pos = d.callee_deadline_positions(c)
            for i in pos:
                term = fn.mir.resolve_operand(t["args"][i])
                cls = d.derives(fn, term)
                if fn.name in ORIGINATORS:
                    r.instances += 1
                    ok = cls == "fresh"
                    r.ob(ok, "originator %s -> %s(deadline = %s): %s" % (fn.path, c["path"], term_str(term), cls))
                    if not ok:
                        r.find(fn.path, "originator:%s" % cls, "%s is documented to impose a deadline but passes %s" % (
                            fn.path, term_str(term)), file=fn.file, line=t["line"])
                else:
                    # no-deadline wrappers legitimately pass None; anything else is unexpected
                    r.count("non_carrier_calls")
                    if cls != "none":
                        r.find(fn.path, "wrapper:%s" % cls, "%s has no deadline of its own but passes %s to %s" % (
                            fn.path, term_str(term), c["path"]), file=fn.file, line=t["line"])
    r.counters["carriers"] = len(d.carriers)
    r.samples.insert(0, "carriers: " + ", ".join(sorted(p for p in d.carriers)))
    return r


ORIGINATORS = ("iter_inline_changes",)


def _mentions(term, pred):
    if isinstance(term, tuple):
        if pred(term):
            return True
        return any(_mentions(x, pred) for x in term)
    if isinstance(term, list):
        return any(_mentions(x, pred) for x in term)
    if isinstance(term, dict):
        return any(_mentions(x, pred) for x in term.values())
    return False


def _stores_param(prog, fn, param, seen, depth=0):
    """Does `fn` store Some(<value built from its parameter local `param`>) into self.deadline, directly or through a
    private self method that it hands such a value to?"""
    m = fn.mir
    ok = False
    for b in m.blocks:
        for s in b["stmts"]:
            if s["k"] == "assign" and s["p"]["l"] == 1 and any(
                    isinstance(e, dict) and "field" in e and (e.get("name") == "deadline" or "Deadline" in (e.get("ty") or "") or
                                                              "Instant" in (e.get("ty") or "")) for e in s["p"]["proj"]):
                term = m.resolve_rvalue(s["rv"])
                seen.append(term_str(term))
                uses_param = _mentions(term, lambda x: x[0] == "local" and len(x) > 2 and x[2] == param)
                is_some = isinstance(term, tuple) and term[0] == "aggregate" and term[1].endswith("Option::Some")
                if uses_param and is_some:
                    ok = True
    if ok or depth >= 2:
        return ok
    for bb, t in m.calls():
        c = m.callee(t) or {}
        g = prog.fn(c.get("path", "")) if c.get("local") and not c.get("trait") else None
        if g is None or not g.mir or g is fn or not t["args"]:
            continue
        a0 = m.resolve_operand(t["args"][0])
        while a0 and a0[0] in ("ref", "deref"):
            a0 = a0[1]
        if not (a0 and a0[0] == "local" and a0[2] == 1):
            continue                      # not a method on our own self
        for i, a in enumerate(t["args"][1:], start=2):
            term = m.resolve_operand(a)
            if _mentions(term, lambda x: x[0] == "local" and len(x) > 2 and x[2] == param):
                if _stores_param(prog, g, i, seen, depth + 1):
                    return True
    return False


def rule_C2(prog):
    r = RuleResult("C2", "the builder stores what it is given (TextDiffConfig::deadline/timeout write a value built "
                         "from their parameter into self.deadline); every arm of Deadline::into_instant returns a value "
                         "built from that arm's payload; deadline_exceeded compares the clock with its parameter on the "
                         "Some arm and returns false on None; duration_to_deadline adds its parameter to now()")
    if "text" in prog.features:
        for name in ("deadline", "timeout"):
            fns = [f for f in prog.find("text::TextDiffConfig::" + name)]
            r.instances += 1
            if not fns:
                r.ob(False, "TextDiffConfig::%s not found" % name)
                r.find("text::TextDiffConfig::" + name, "missing", "builder method TextDiffConfig::%s not found" % name)
                continue
            fn = fns[0]
            seen = []
            ok = _stores_param(prog, fn, 2, seen)
            r.ob(ok, "TextDiffConfig::%s: self.deadline = %s" % (name, seen))
            if not ok:
                r.find(fn.path, "not-stored", "TextDiffConfig::%s does not store Some(<value built from its parameter>) "
                       "into self.deadline (found %s)" % (name, seen or "no store"), file=fn.file, line=fn.line)
        fns = prog.find("text::Deadline::into_instant")
        r.instances += 1
        if not fns:
            # the conversion may be open-coded where it is used: `match self.deadline { Some(Deadline::Absolute(i)) => Some(i),
            # Some(Deadline::Relative(d)) => duration_to_deadline(d), None => None }` -- same obligation, per arm
            n_variants = len(prog.adts.get("text::Deadline", {"variants": []})["variants"])
            found = False
            for g in prog.user_fns():
                if not g.mir or g.kind == "Closure" or not g.module.startswith("text"):
                    continue
                gm = g.mir
                for l_, decl in enumerate(gm.locals):
                    if not is_opt_of(decl["ty"], is_instant) or l_ <= gm.arg_count:
                        continue
                    defs = gm.defs().get(l_, [])
                    if len(defs) < 2:
                        continue
                    variants, bad = set(), []
                    for bb_, idx_, kind_, payload_ in defs:
                        term = ("call", (gm.callee(payload_) or {}).get("path", "?"), [gm.expand(gm.resolve_operand(a)) for a in payload_["args"]]) \
                            if kind_ == "call" else gm.expand(gm.resolve_rvalue(payload_))
                        dc = []
                        _mentions(term, lambda x: x[0] == "downcast" and x[2] in ("Absolute", "Relative") and dc.append(x[2]) and False)
                        is_none = isinstance(term, tuple) and term and term[0] == "aggregate" and str(term[1]).endswith("Option::None")
                        if dc:
                            variants |= set(dc)
                        elif not is_none:
                            bad.append(term_str(term))
                    if variants:
                        found = True
                        ok = not bad and len(variants) == n_variants
                        r.ob(ok, "%s converts its Deadline inline: variants %s, other values %s" % (g.path, sorted(variants), bad))
                        if not ok:
                            r.find(g.path, "arm-drops-payload", "the inline Deadline conversion of %s has an arm whose value is not "
                                   "built from that arm's payload: %s (payload variants used: %s of %d)" % (g.path, bad, sorted(variants), n_variants),
                                   file=g.file, line=g.line)
            if not found:
                r.ob(False, "Deadline::into_instant not found")
                r.find("text::Deadline::into_instant", "missing", "no conversion from the configured Deadline to an instant found "
                       "(neither Deadline::into_instant nor an inline match on its variants)")
        else:
            fn = fns[0]
            m = fn.mir
            rets = []
            for i, b in enumerate(m.blocks):
                for s in b["stmts"]:
                    if s["k"] == "assign" and s["p"]["l"] == 0 and not s["p"]["proj"]:
                        rets.append((s["line"], m.expand(m.resolve_rvalue(s["rv"]))))
                t = b["term"]
                if t["k"] == "call" and t["dest"]["l"] == 0:
                    c = m.callee(t)
                    rets.append((t["line"], ("call", c["path"] if c else "?", [m.expand(m.resolve_operand(a)) for a in t["args"]])))
            bad = []
            variants = set()
            for line, term in rets:
                dc = []
                _mentions(term, lambda x: x[0] == "downcast" and dc.append(x[2]) and False)
                if not dc:
                    bad.append((line, term_str(term)))
                variants |= set(dc)
            n_variants = len(prog.adts.get("text::Deadline", {"variants": []})["variants"])
            ok = not bad and len(variants) == n_variants and len(rets) >= n_variants
            r.ob(ok, "Deadline::into_instant returns %s" % [term_str(t) for _, t in rets])
            if not ok:
                r.find(fn.path, "arm-drops-payload", "an arm of Deadline::into_instant returns a value not built from "
                       "its payload: %s (payload variants used: %s of %d)" % (bad, sorted(variants), n_variants),
                       file=fn.file, line=(bad[0][0] if bad else fn.line))
    # probe
    fns = prog.find(PROBE)
    r.instances += 1
    if not fns:
        r.ob(False, "deadline_exceeded not found")
        r.find(PROBE, "missing", "deadline_exceeded not found")
    else:
        fn = fns[0]
        m = fn.mir
        cmp_ok = False
        false_on_none = False
        for i, b in enumerate(m.blocks):
            t = b["term"]
            if t["k"] == "call" and t["dest"]["l"] == 0:
                c = m.callee(t)
                if c and c.get("trait") == "std::cmp::PartialOrd" and c.get("method") in ("gt", "ge"):
                    a0 = term_str(m.expand(m.resolve_operand(t["args"][0])))
                    a1 = m.expand(m.resolve_operand(t["args"][1]))
                    if "now(" in a0 and _mentions(a1, lambda x: x[0] == "downcast" and x[2] == "Some"):
                        cmp_ok = True
                if c and c.get("trait") == "std::cmp::PartialOrd" and c.get("method") in ("lt", "le"):
                    a1 = term_str(m.expand(m.resolve_operand(t["args"][1])))
                    a0 = m.expand(m.resolve_operand(t["args"][0]))
                    if "now(" in a1 and _mentions(a0, lambda x: x[0] == "downcast" and x[2] == "Some"):
                        cmp_ok = True
            for s in b["stmts"]:
                if s["k"] == "assign" and s["p"]["l"] == 0 and s["rv"]["k"] == "use" and s["rv"]["op"].get("val") in ("const false", "false"):
                    false_on_none = True
        # `deadline.map_or(false, |d| Instant::now() > d)` / `deadline.is_some_and(|d| Instant::now() > d)`
        for i, b in enumerate(m.blocks):
            t = b["term"]
            if t["k"] != "call" or t["dest"]["l"] != 0:
                continue
            c = m.callee(t) or {}
            pth = c.get("path", "")
            if pth not in ("std::option::Option::<T>::map_or", "std::option::Option::<T>::is_some_and"):
                continue
            recv = m.resolve_operand(t["args"][0])
            if not (isinstance(recv, tuple) and recv[0] == "local" and recv[2] == 1):
                continue
            if pth.endswith("map_or"):
                dflt = t["args"][1]
                if not (dflt.get("k") == "const" and dflt.get("val") in ("const false", "false")):
                    continue
            cps = [a.get("path") for a in c.get("args", []) if isinstance(a, dict) and a.get("k") == "closure"]
            cf = prog.fn(cps[0]) if cps else None
            if cf is None or not cf.mir:
                continue
            cm = cf.mir
            for cb, ct in cm.calls():
                cc = cm.callee(ct) or {}
                if cc.get("trait") == "std::cmp::PartialOrd" and cc.get("method") in ("gt", "ge", "lt", "le") and ct["dest"]["l"] == 0:
                    x0 = cm.expand(cm.resolve_operand(ct["args"][0]))
                    x1 = cm.expand(cm.resolve_operand(ct["args"][1]))
                    if cc["method"] in ("lt", "le"):
                        x0, x1 = x1, x0
                    x1s = x1
                    while isinstance(x1s, tuple) and x1s and x1s[0] in ("ref", "deref"):
                        x1s = x1s[1]
                    if "now(" in term_str(x0) and isinstance(x1s, tuple) and x1s[0] == "local" and x1s[2] == 2:
                        cmp_ok = True
                        false_on_none = True
        consts_true = any(s["k"] == "assign" and s["p"]["l"] == 0 and s["rv"]["k"] == "use" and
                          s["rv"]["op"].get("val") in ("const true", "true") for b in m.blocks for s in b["stmts"])
        ok = cmp_ok and false_on_none and not consts_true
        r.ob(ok, "deadline_exceeded: now() > deadline on Some: %s; false on None: %s" % (cmp_ok, false_on_none))
        if not ok:
            r.find(fn.path, "probe-shape", "deadline_exceeded must return `Instant::now() > deadline` for Some(deadline) "
                   "and false for None (comparison found: %s, false-on-None: %s, constant true: %s)" % (cmp_ok, false_on_none, consts_true),
                   file=fn.file, line=fn.line)
    fns = prog.find(DUR2DL)
    if fns:
        fn = fns[0]
        m = fn.mir
        r.instances += 1
        ok = False
        for i, b in enumerate(m.blocks):
            t = b["term"]
            if t["k"] == "call" and t["dest"]["l"] == 0:
                s = term_str(("call", (m.callee(t) or {}).get("path", "?"), [m.resolve_operand(a) for a in t["args"]]))
                if "now(" in s and "add" in s and "checked_add" in s:
                    ok = True
        r.ob(ok, "duration_to_deadline = now().checked_add(add): %s" % ok)
        if not ok:
            r.find(fn.path, "dur2dl", "duration_to_deadline does not return Instant::now().checked_add(<its parameter>)",
                   file=fn.file, line=fn.line)
    return r


# ------------------------------------------------------------------ C3 / C4
def _item_eq_call(c):
    if not c:
        return False
    if c.get("trait") == "std::cmp::PartialEq" and c.get("method") in ("eq", "ne"):
        st = peel(c.get("self_ty"))
        return isinstance(st, dict) and (st.get("k") == "alias" and st.get("path") == "std::ops::Index::Output" or st.get("k") == "param")
    return False


def comparing_fns(prog):
    """Functions that (transitively) compare items."""
    g = effects.cg(prog)
    direct = set()
    for fn in prog.user_fns():
        if not fn.mir:
            continue
        for bb, t in fn.mir.calls():
            if _item_eq_call(fn.mir.callee(t)):
                direct.add(fn.path)
    # Calling back into the caller's hook (`d.equal(..)`, dynamically any DiffHook impl, Patience's among them) is not
    # comparing work of the function that makes the call: the call-graph edges that exist only because of DiffHook
    # dispatch do not make a helper such as `report_equal(d, ..)` a comparing function.
    HOOK = "algorithms::hook::DiffHook"
    hook_methods = set()
    for imp in prog.impls:
        if imp.get("trait") and imp["trait"]["path"] == HOOK:
            hook_methods |= {m_["path"] for m_ in imp["methods"]}
    tr = prog.traits.get(HOOK)
    if tr:
        hook_methods |= {m_["path"] for m_ in tr["methods"]}

    def dispatch_only(fn):
        """DiffHook methods this function reaches only through trait dispatch on a generic hook"""
        directly = set()
        for bb, t in fn.mir.calls():
            c = fn.mir.callee(t) or {}
            if c.get("trait") == HOOK and c.get("resolved_local") and c.get("resolved"):
                directly.add(c["resolved"])
            elif c.get("trait") != HOOK and c.get("path") in hook_methods:
                directly.add(c["path"])
        return hook_methods - directly

    skip = {fn.path: dispatch_only(fn) for fn in prog.user_fns() if fn.mir}
    res = set(direct)
    changed = True
    while changed:
        changed = False
        for fn in prog.user_fns():
            if fn.path in res:
                continue
            if any(n in res and n not in skip.get(fn.path, ()) for n in g.edges.get(fn.path, ())):
                res.add(fn.path)
                changed = True
    return res, direct


def _block_compares(prog, fn, b, comp):
    t = fn.mir.blocks[b]["term"]
    if t["k"] != "call":
        return False
    c = fn.mir.callee(t)
    if _item_eq_call(c):
        return True
    if c:
        p = c.get("resolved") if c.get("resolved_local") else c["path"]
        if p in comp:
            return True
        # closures passed by value to iterator adapters
        for a in t["args"]:
            if a.get("k") == "const" and "closure@" in (a.get("ty") or ""):
                pass
    return False


def _loop_nests(m):
    loops = m.loops()
    info = []
    for h, body in loops:
        depth_inner = [h2 for h2, b2 in loops if h2 != h and h2 in body]
        outer = [h2 for h2, b2 in loops if h2 != h and h in b2]
        info.append({"header": h, "body": body, "inner": depth_inner, "outer": outer})
    return info


PROBE_TABLE = {
    # function -> reason the nest is super-linear and must be probed
    "algorithms::myers::find_middle_snake": "D loop x diagonals x snake following: O((N+M)D)",
    "algorithms::lcs::make_table": "row loop x column loop: O(NM)",
}
PROBE_EXEMPT = {
    "<algorithms::patience::Patience<Old, New, D> as algorithms::hook::DiffHook>::equal":
        "outer loop over anchors, inner loop advances the cursors monotonically: amortised linear; the quadratic part is "
        "the inner myers call, which carries the deadline (C1)",
    "algorithms::lcs::diff_deadline": "single linear walk over the table",
}


def rule_C3(prog):
    r = RuleResult("C3", "every super-linear comparison loop nest of a deadline carrier (frozen table: the D loop of "
                         "find_middle_snake, the row loop of make_table) contains, at depth 1, a call "
                         "deadline_exceeded(<carrier deadline>) that dominates every comparison of the nest and whose "
                         "true edge leaves the loop; any other depth>=2 comparison nest in a carrier must be listed "
                         "(probed or exempt with a reason)")
    d = dl(prog)
    comp, direct = comparing_fns(prog)
    seen_tab = set()
    for path, info in sorted(d.carriers.items()):
        fn = prog.fn(path)
        m = fn.mir
        nests = _loop_nests(m)
        for n in nests:
            if n["outer"]:
                continue
            body = n["body"]
            cmp_blocks = [b for b in body if _block_compares(prog, fn, b, comp)]
            if not cmp_blocks:
                continue
            # depth: inner loop present, or a callee that loops
            callee_loops = False
            for b in cmp_blocks:
                c = m.callee(m.blocks[b]["term"])
                if c and not _item_eq_call(c):
                    callee_loops = True
            depth2 = bool(n["inner"]) or callee_loops
            if not depth2:
                continue
            cpath = prog.canon(path) if norm_path(path) not in PROBE_EXEMPT and norm_path(path) not in PROBE_TABLE else norm_path(path)
            if cpath in PROBE_EXEMPT:
                r.count("exempt_nests")
                r.samples.append("%s: loop at bb%d exempt: %s" % (path, n["header"], PROBE_EXEMPT[cpath]))
                continue
            r.instances += 1
            seen_tab.add(path)
            probes = []
            for b in body:
                t = m.blocks[b]["term"]
                if t["k"] == "call" and (m.callee(t) or {}).get("path") == PROBE:
                    probes.append(b)
            problems = []
            good = None
            for pb in probes:
                t = m.blocks[pb]["term"]
                term = m.resolve_operand(t["args"][0])
                cls = d.derives(fn, term)
                inner_bodies = [b2 for h2, b2 in m.loops() if h2 in n["inner"]]
                at_depth1 = not any(pb in b2 for b2 in inner_bodies)
                dom = all(m.dominates(pb, cb) for cb in cmp_blocks)
                # true edge
                tgt = t["target"]
                sw = m.blocks[tgt]["term"] if tgt is not None else None
                leaves = False
                true_tgt = None
                if sw and sw["k"] == "switch" and sw["discr"].get("p", {}).get("l") == t["dest"]["l"]:
                    # values [0] -> false target ; otherwise -> true
                    if sw["values"] == ["0"]:
                        true_tgt = sw["otherwise"]
                    elif "1" in sw["values"]:
                        true_tgt = sw["targets"][sw["values"].index("1")]
                    if true_tgt is not None:
                        # the true edge leaves the loop if no comparison of the nest is reachable again without
                        # passing the loop header ... simplest sound form: target not in body, or it reaches no
                        # comparison block inside the body
                        reach = m.reach_from([true_tgt])
                        leaves = not any(cb in reach for cb in cmp_blocks)
                if cls != "carrier":
                    problems.append("probe argument %s is %s, not the carrier's deadline" % (term_str(term), cls))
                elif not at_depth1:
                    problems.append("probe is inside an inner loop")
                elif not dom:
                    problems.append("probe does not dominate every comparison of the nest")
                elif not leaves:
                    problems.append("the probe's true edge does not leave the loop (comparisons remain reachable)")
                else:
                    good = (pb, true_tgt)
            ok = good is not None
            r.ob(ok, "%s: loop bb%d (%d blocks, %d comparison sites, %d inner loops): %s" % (
                path, n["header"], len(body), len(cmp_blocks), len(n["inner"]),
                "probe at bb%d, true edge -> bb%d leaves the nest" % good if ok else (problems or ["no probe in the loop"])))
            if not ok:
                if cpath in PROBE_TABLE:
                    r.find(path, "unprobed-nest", "%s: %s -- %s" % (path, PROBE_TABLE[cpath], "; ".join(problems) or
                                                                   "no deadline_exceeded call in the loop"),
                           file=fn.file, line=m.blocks[n["header"]]["term"].get("line", fn.line))
                else:
                    r.find(path, "unreviewed-nest", "%s contains a depth>=2 comparison loop nest that is neither probed "
                           "nor listed as exempt (%s)" % (path, "; ".join(problems) or "no probe"),
                           file=fn.file, line=fn.line)
        # the same nest written with iterator adapters: `rows.try_for_each(|i| { if deadline_exceeded(deadline) { return None }
        # cols.for_each(|j| { .. compare .. }); Some(()) })` -- the outer closure is the body of the outer loop
        STOPPING = {"try_for_each": ("None", "Err", "Break"), "try_fold": ("None", "Err", "Break"), "all": ("false",), "any": ("true",)}
        for bb, t in m.calls():
            c = m.callee(t) or {}
            if c.get("trait") not in ("std::iter::Iterator", "std::iter::DoubleEndedIterator") or \
                    c.get("method") not in ("try_for_each", "try_fold", "all", "any", "for_each", "fold"):
                continue
            cfs = [prog.fn(a.get("path", "")) for a in c.get("args", []) if isinstance(a, dict) and a.get("k") == "closure"]
            cfs = [x for x in cfs if x is not None and x.mir]
            if len(cfs) != 1:
                continue
            cf = cfs[0]
            cm = cf.mir

            def blk_cmp(b):
                if _block_compares(prog, cf, b, comp):
                    return True
                tt = cm.blocks[b]["term"]
                if tt["k"] == "call":
                    cc = cm.callee(tt) or {}
                    return any(isinstance(a, dict) and a.get("k") == "closure" and a.get("path") in comp for a in cc.get("args", []) or [])
                return False
            cmp_blocks = [b for b in range(cm.n) if blk_cmp(b)]
            if not cmp_blocks:
                continue
            inner_loop = any(b2 for h2, b2 in cm.loops() if any(cb in b2 for cb in cmp_blocks))
            inner_adapter = any(cm.blocks[b]["term"]["k"] == "call" and not _item_eq_call(cm.callee(cm.blocks[b]["term"])) for b in cmp_blocks)
            if not (inner_loop or inner_adapter):
                continue
            cpath = prog.canon(path) if norm_path(path) not in PROBE_EXEMPT and norm_path(path) not in PROBE_TABLE else norm_path(path)
            if cpath in PROBE_EXEMPT:
                r.count("exempt_nests")
                continue
            r.instances += 1
            seen_tab.add(path)
            problems = []
            good = None
            for pb, pt in cm.calls():
                if (cm.callee(pt) or {}).get("path") != PROBE:
                    continue
                term = cm.resolve_operand(pt["args"][0])
                cls = d.derives_in(cf, term)
                at_depth1 = not any(pb in b2 for h2, b2 in cm.loops())
                dom = all(cm.dominates(pb, cb) for cb in cmp_blocks)
                tgt = pt["target"]
                sw = cm.blocks[tgt]["term"] if tgt is not None else None
                leaves = False
                true_tgt = None
                if sw and sw["k"] == "switch" and sw["discr"].get("p", {}).get("l") == pt["dest"]["l"]:
                    if sw["values"] == ["0"]:
                        true_tgt = sw["otherwise"]
                    elif "1" in sw["values"]:
                        true_tgt = sw["targets"][sw["values"].index("1")]
                    if true_tgt is not None:
                        reach = cm.reach_from([true_tgt])
                        stops = STOPPING.get(c.get("method"))
                        rets = []
                        for b2 in reach:
                            for s_ in cm.blocks[b2]["stmts"]:
                                if s_["k"] == "assign" and s_["p"]["l"] == 0 and not s_["p"]["proj"]:
                                    rets.append(term_str(cm.resolve_rvalue(s_["rv"])))
                        stopping = bool(stops) and bool(rets) and all(any(x in rv for x in stops) for rv in rets)
                        leaves = not any(cb in reach for cb in cmp_blocks) and stopping
                if cls != "carrier":
                    problems.append("probe argument %s is %s, not the carrier's deadline" % (term_str(term), cls))
                elif not at_depth1:
                    problems.append("probe is inside an inner loop of the closure")
                elif not dom:
                    problems.append("probe does not dominate every comparison of the nest")
                elif not leaves:
                    problems.append("after the probe fires the closure does not stop the iteration (`%s` goes on, or comparisons remain reachable)" % c.get("method"))
                else:
                    good = (pb, true_tgt)
            ok = good is not None
            r.ob(ok, "%s: adapter nest `%s` at line %d (%d comparison sites in the closure): %s" % (
                path, c.get("method"), t["line"], len(cmp_blocks), "probe in the closure stops the iteration" if ok else (problems or ["no probe in the closure"])))
            if not ok:
                r.find(path, "unprobed-nest" if cpath in PROBE_TABLE else "unreviewed-nest",
                       "%s: the comparison nest driven by `%s` -- %s" % (path, c.get("method"), "; ".join(problems) or "no deadline_exceeded call in the closure"),
                       file=fn.file, line=t["line"])
    seen_norm = {norm_path(x) for x in seen_tab} | {prog.canon(x) for x in seen_tab}
    for path in PROBE_TABLE:
        cands = [f for f in prog.fn_list if norm_path(f.path) == path] or prog.find(path)
        if not cands:
            r.find(path, "table-anchor-lost", "probe table entry %s not found in the crate" % path)
        elif path not in seen_norm:
            r.instances += 1
            r.ob(False, "%s: no depth>=2 comparison nest recognised" % path)
            r.find(path, "nest-not-recognised", "%s is listed as super-linear but no comparison loop nest was recognised "
                   "(deadline parameter removed, or loop restructured beyond the rule)" % path,
                   file=cands[0].file, line=cands[0].line,
                   undecided=bool(prog.fn(cands[0].path) and cands[0].path in d.carriers))   # still a carrier: the loops changed shape
    return r


def rule_C4(prog):
    r = RuleResult("C4", "after expiry no comparison loop is entered again: from the probe's true edge to the return, "
                         "and in the caller's continuation for the gave-up value (None from find_middle_snake / "
                         "make_table), no item comparison and no call to a comparing function is reachable")
    d = dl(prog)
    comp, direct = comparing_fns(prog)
    for path, info in sorted(d.carriers.items()):
        fn = prog.fn(path)
        m = fn.mir
        # (a) probe true edges
        for bb, t in m.calls():
            if (m.callee(t) or {}).get("path") != PROBE:
                continue
            tgt = t["target"]
            sw = m.blocks[tgt]["term"] if tgt is not None else None
            if not (sw and sw["k"] == "switch"):
                continue
            true_tgt = sw["otherwise"] if sw["values"] == ["0"] else (
                sw["targets"][sw["values"].index("1")] if "1" in sw["values"] else None)
            if true_tgt is None:
                continue
            r.instances += 1
            reach = m.reach_from([true_tgt])
            bad = sorted(b for b in reach if _block_compares(prog, fn, b, comp))
            r.ob(not bad, "%s: after the probe fires (bb%d) %d blocks reachable, comparing blocks: %s" % (
                path, true_tgt, len(reach), bad or "none"))
            if bad:
                tt = m.blocks[bad[0]]["term"]
                r.find(path, "compare-after-expiry", "%s: `%s` is reachable after deadline_exceeded returned true" % (
                    path, tt.get("src", "?")), file=fn.file, line=tt.get("line", fn.line))
        # (b) gave-up continuation in callers
        for bb, t in m.calls():
            c = m.callee(t)
            if not c:
                continue
            g, pos = d.callee_deadline_positions(c)
            if g is None or not pos or g.path not in d.carriers:
                continue
            out = g.sig["output"]
            if not (isinstance(out, dict) and out.get("k") == "adt" and out["path"] == "std::option::Option"):
                continue
            # find the switch on the discriminant of the returned option
            dest = t["dest"]["l"]
            none_tgts = []
            for i, b in enumerate(m.blocks):
                sw = b["term"]
                if sw["k"] != "switch":
                    continue
                for s in b["stmts"]:
                    if s["k"] == "assign" and s["rv"]["k"] == "discr" and s["rv"]["p"]["l"] == dest and \
                            sw["discr"].get("p", {}).get("l") == s["p"]["l"]:
                        if "0" in sw["values"]:
                            none_tgts.append(sw["targets"][sw["values"].index("0")])
                        elif sw["values"] == ["1"]:
                            none_tgts.append(sw["otherwise"])
            r.instances += 1
            if not none_tgts:
                r.ob(False, "%s: result of %s is not matched on" % (path, g.path))
                r.find(path, "gaveup-not-examined", "%s does not examine the Option returned by %s" % (path, g.path),
                       file=fn.file, line=t["line"])
                continue
            reach = m.reach_from(none_tgts)
            bad = sorted(b for b in reach if _block_compares(prog, fn, b, comp))
            r.ob(not bad, "%s: continuation after %s returned None: %d blocks, comparing blocks %s" % (
                path, g.path.rsplit("::", 1)[-1], len(reach), bad or "none"))
            if bad:
                tt = m.blocks[bad[0]]["term"]
                r.find(path, "compare-after-gaveup:" + g.path.rsplit("::", 1)[-1],
                       "%s: after %s gave up (None), `%s` is still reachable" % (path, g.path, tt.get("src", "?")),
                       file=fn.file, line=tt.get("line", fn.line))
    return r


def rule_C5(prog):
    r = RuleResult("C5", "non-interference: outside deadline_support and Deadline::into_instant no code branches on, "
                         "compares or inspects a deadline-typed value; such values are only copied, stored in deadline "
                         "fields and passed to carriers and to the probe")
    ALLOWED_CALLEE = ("std::option::Option::<T>::and_then", "std::option::Option::<T>::map", "std::clone::Clone::clone",
                      "text::Deadline::into_instant", PROBE, "std::option::Option::<T>::copied")
    d = dl(prog)
    for fn in prog.user_fns():
        if not fn.mir or fn.module == "deadline_support":
            continue
        if fn.path == "text::Deadline::into_instant" or fn.is_derived():
            continue
        if fn.impl and fn.impl.get("trait") in ("std::fmt::Debug", "std::clone::Clone"):
            continue
        m = fn.mir
        conv = d.is_conversion(fn)
        dl_locals = {i for i, l in enumerate(m.locals) if is_deadline_ty(l["ty"])}
        if not dl_locals:
            continue

        def is_dl_place(p):
            if p["l"] in dl_locals and not p["proj"]:
                return True
            # field of deadline type
            for e in p["proj"]:
                if isinstance(e, dict) and "field" in e and ("Instant" in (e.get("ty") or "") or "Deadline" in (e.get("ty") or "")):
                    return True
            return False
        for i, b in enumerate(m.blocks):
            if b["cleanup"]:
                continue
            for s in b["stmts"]:
                if s["k"] != "assign":
                    continue
                rv = s["rv"]
                if rv["k"] == "discr" and is_dl_place(rv["p"]) and not conv and fn.path in d.carriers and \
                        (i in d.carrier_switch_blocks(fn) or any(m.dominates(sb_, i) for sb_ in d.carrier_switch_blocks(fn))) and \
                        d.inline_conversion(fn, i):
                    # the same open-coded conversion inside a carrier: `match self.deadline { Some(Absolute(i)) => Some(i),
                    # Some(Relative(d)) => duration_to_deadline(d), None => None }` -- the arms only rewrap the value
                    r.instances += 1
                    r.ob(True, "%s rewraps its deadline inline at line %d (arms only move values / call conversions)" % (fn.path, s["line"]))
                    continue
                if rv["k"] == "discr" and is_dl_place(rv["p"]) and conv:
                    # a conversion function may look at Some/None of the deadline it rewraps (an open-coded and_then)
                    r.instances += 1
                    r.ob(True, "%s (deadline conversion) unwraps its deadline at line %d" % (fn.path, s["line"]))
                    continue
                if rv["k"] == "discr" and is_dl_place(rv["p"]):
                    r.instances += 1
                    r.ob(False, "%s inspects discriminant of a deadline value at line %d" % (fn.path, s["line"]))
                    r.find(fn.path, "branch-on-deadline", "%s branches on a deadline value (only the probe may read it)" % fn.path,
                           file=fn.file, line=s["line"])
                if rv["k"] == "binop" and rv["op"] in ("Eq", "Ne", "Lt", "Le", "Gt", "Ge"):
                    for o in (rv["l"], rv["r"]):
                        if o["k"] in ("copy", "move") and is_dl_place(o["p"]):
                            r.instances += 1
                            r.ob(False, "%s compares a deadline value at line %d" % (fn.path, s["line"]))
                            r.find(fn.path, "compare-deadline", "%s compares a deadline value" % fn.path, file=fn.file, line=s["line"])
            t = b["term"]
            if t["k"] == "call":
                c = m.callee(t)
                if not c:
                    continue
                involved = False
                inv_pos = []
                for ai, a in enumerate(t["args"]):
                    if a["k"] in ("copy", "move"):
                        if is_dl_place(a["p"]):
                            involved = True
                            inv_pos.append(ai)
                        else:
                            sd = m.single_def(a["p"]["l"]) if not a["p"]["proj"] else None
                            if sd and sd[2] == "assign" and sd[3]["k"] == "ref" and is_dl_place(sd[3]["p"]):
                                involved = True
                                inv_pos.append(ai)
                if not involved:
                    continue
                g, pos = d.callee_deadline_positions(c)
                r.instances += 1
                ok = bool(pos) or c["path"] in ALLOWED_CALLEE
                if not ok and g is None and c.get("local") and not c.get("trait"):
                    g = prog.fn(c["path"])
                if not ok and g is not None and g.mir and g.sig and g.module != "deadline_support":
                    # a local function that declares the value as a deadline-typed parameter is itself held to this rule
                    ins = g.sig["inputs"]
                    ok = all(i < len(ins) and is_deadline_ty(ins[i]) for i in inv_pos)
                r.ob(ok, "%s passes a deadline value to %s" % (fn.path, c["path"]))
                if not ok:
                    r.find(fn.path, "deadline-flows-to:" + c["path"], "%s hands a deadline value to %s, which is neither a "
                           "deadline carrier nor the probe" % (fn.path, c["path"]), file=fn.file, line=t["line"])
    return r


def rule_C6(prog):
    r = RuleResult("C6", "a function that carries or originates a deadline never calls the no-deadline wrapper of a "
                         "deadline-taking function (`myers::diff` instead of `myers::diff_deadline`, `capture_diff` "
                         "instead of `capture_diff_deadline`): the deadline would silently stop there")
    d = dl(prog)
    # wrappers: non-carriers that pass None to a deadline parameter of a local callee
    wrappers = {}
    for fn in prog.user_fns():
        if not fn.mir or fn.path in d.carriers or fn.kind == "Closure":
            continue
        for bb, t in fn.mir.calls():
            c = fn.mir.callee(t)
            if not c:
                continue
            g, pos = d.callee_deadline_positions(c)
            for i in pos:
                if d.derives(fn, fn.mir.resolve_operand(t["args"][i])) == "none":
                    wrappers[fn.path] = g.path
    # transitive: a non-carrier calling a wrapper is a wrapper too
    changed = True
    while changed:
        changed = False
        for fn in prog.user_fns():
            if not fn.mir or fn.path in d.carriers or fn.path in wrappers or fn.kind == "Closure":
                continue
            for bb, t in fn.mir.calls():
                c = fn.mir.callee(t)
                p = (c.get("resolved") if c and c.get("resolved_local") else (c or {}).get("path"))
                if p in wrappers and fn.module not in ("utils",):
                    wrappers[fn.path] = p
                    changed = True
                    break
    r.counters["wrappers"] = len(wrappers)
    r.samples.append("no-deadline wrappers: " + ", ".join(sorted(wrappers)))
    holders = set(d.carriers) | {f.path for f in prog.user_fns() if f.name in ORIGINATORS and f.path not in d.carriers}
    for path in sorted(holders):
        fn = prog.fn(path)
        if fn is None or not fn.mir:
            continue
        info = d.carriers.get(path, {"params": [], "field": False})
        bodies = [fn] + list(prog.closures_of.get(path, []))
        for b in bodies:
            for bb, t in b.mir.calls():
                c = b.mir.callee(t)
                if not c:
                    continue
                p = c.get("resolved") if c.get("resolved_local") else c["path"]
                if p in wrappers:
                    r.instances += 1
                    r.ob(False, "%s calls the no-deadline wrapper %s" % (path, p))
                    r.find(path, "drops-deadline:%s" % p, "%s holds a deadline but calls %s, the no-deadline wrapper of %s: the "
                           "deadline does not reach the algorithm on this path" % (path, p, wrappers[p]), file=fn.file, line=t["line"])
                else:
                    g, pos = d.callee_deadline_positions(c)
                    if pos:
                        r.instances += 1
                        r.ob(True, "%s -> %s (deadline-taking variant)" % (path, p))
    return r


def _calls_deadline_taker(d, fn):
    for bb, t in fn.mir.calls():
        c = fn.mir.callee(t)
        if c:
            g, pos = d.callee_deadline_positions(c)
            if pos:
                return True
    return False
