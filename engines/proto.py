"""Engine B: DiffHook protocol (MIR, interprocedural summaries, type-directed adapter composition).

Trace domain: strings over {e (emission: equal/delete/insert/replace), f (finish)} on the *root* hook of a
function, canonicalised (e+ -> e) and capped at one `f` (two or more -> BAD).  A function's summary is the
set of canonical traces over all paths to its Ok exit (paths avoiding the error edges found by B1) and over
all paths to any exit.  A call with a hook of adapter type T pushes the callee's trace through the
DiffHook impl of T (resolved structurally from the type: `&mut D`, NoFinishHook<D>, Replace<D>, Compact<..,D>,
Patience<..,D>, Capture), so summaries compose without monomorphised MIR.
"""
import re
from .core import RuleResult
from .facts import term_str, targs, const_int
from .callgraph import peel, ty_head

HOOK = "algorithms::hook::DiffHook"
EMIT = ("equal", "delete", "insert", "replace")
METHODS = EMIT + ("finish",)
BAD = "BAD"
OK_DRIVER = {"f", "ef"}
NO_FINISH = {"", "e"}
NOTHING_AFTER_FINISH = {"", "e", "f", "ef"}


def canon(s):
    if BAD in s:
        return BAD
    out = []
    for ch in s:
        if ch == "e" and out and out[-1] == "e":
            continue
        out.append(ch)
    s = "".join(out)
    if s.count("f") >= 2:
        return BAD
    return s


def cat(A, B):
    return {canon(a + b) for a in A for b in B}


def unify(pat, ty, binding):
    """Structural one-way unification of an impl's self type (with params) against a concrete type."""
    if not isinstance(pat, dict) or not isinstance(ty, dict):
        return pat == ty
    if pat.get("k") == "param":
        i = pat["i"]
        if i in binding:
            return binding[i] == ty
        binding[i] = ty
        return True
    if pat.get("k") != ty.get("k"):
        return False
    k = pat["k"]
    if k == "adt":
        if pat["path"] != ty["path"]:
            return False
        pa, ta = pat["args"], ty["args"]
        if len(pa) != len(ta):
            return False
        return all(unify(a, b, binding) for a, b in zip(pa, ta))
    if k in ("ref", "ptr"):
        return pat.get("mut") == ty.get("mut") and unify(pat["t"], ty["t"], binding)
    if k in ("slice", "array"):
        return unify(pat["t"], ty["t"], binding)
    if k == "tuple":
        return len(pat["ts"]) == len(ty["ts"]) and all(unify(a, b, binding) for a, b in zip(pat["ts"], ty["ts"]))
    if k == "lt":
        return True
    return pat == ty


def subst(ty, binding):
    if isinstance(ty, dict):
        if ty.get("k") == "param" and ty["i"] in binding:
            return binding[ty["i"]]
        return {k: subst(v, binding) for k, v in ty.items()}
    if isinstance(ty, list):
        return [subst(v, binding) for v in ty]
    return ty


def ty_s(t):
    if not isinstance(t, dict):
        return str(t)
    k = t.get("k")
    if k == "param":
        return t["n"]
    if k == "ref":
        return ("&mut " if t["mut"] else "&") + ty_s(t["t"])
    if k == "adt":
        a = [ty_s(x) for x in t["args"] if x.get("k") != "lt"]
        return t["path"].rsplit("::", 1)[-1] + ("<%s>" % ", ".join(a) if a else "")
    if k == "prim":
        return t["n"]
    if k == "slice":
        return "[%s]" % ty_s(t["t"])
    if k == "alias":
        return t.get("s", "alias")
    return k or "?"


class Proto:
    """Summaries for one Program."""

    def __init__(self, prog):
        self.prog = prog
        self.problems = []           # (fn path, detail, msg, line) -> reported as B0 findings
        self.impls = []              # DiffHook impls: dict(self_ty, methods{name: path}, raw)
        for imp in prog.impls:
            if imp["trait"] and imp["trait"]["path"] == HOOK:
                self.impls.append({"self_ty": imp["self_ty"], "methods": {m["name"]: m["path"] for m in imp["methods"]},
                                   "raw": imp})
        tr = prog.traits.get(HOOK)
        self.defaults = {m["name"]: m["path"] for m in tr["methods"]} if tr else {}
        self.root = {}               # fn path -> (index, name) | None
        for fn in prog.fn_list:
            self.root[fn.path] = self._root_of(fn)
        self.err_edges = {}          # fn path -> set((bb, target))
        self.sites = {}              # fn path -> list of B1 site records
        self.sum_ok = {}
        self.sum_any = {}
        self._b1_done = False
        self._active = set()
        self.closure_ok = set()      # closures with hook calls that are driven through a known std adapter

    # ---- roots -----------------------------------------------------------
    def _root_of(self, fn):
        bs = [b for b in fn.raw.get("bounds", []) if b["trait"] == HOOK]
        seen = {}
        for b in bs:
            seen[b["index"]] = b["param"]
        if len(seen) == 1:
            (i, n), = seen.items()
            return (i, n)
        if len(seen) > 1:
            self.problems.append((fn.path, "multi-root", "function has %d DiffHook-bounded type parameters; the "
                                  "single-root summary does not apply" % len(seen), fn.line))
        return None

    STAR_ADAPTERS = ("try_for_each", "for_each", "try_fold", "fold", "all", "any")
    OPT_ADAPTERS = ("map", "and_then", "map_or", "map_or_else", "unwrap_or_else", "or_else", "then", "map_err")

    def hook_closures(self, c):
        """closures (with hook calls in their bodies) among the generic arguments of a callee"""
        out = []
        for a in (c or {}).get("args", []) or []:
            if isinstance(a, dict) and a.get("k") == "closure":
                cf = self.prog.fn(a.get("path", ""))
                if cf is not None and cf.mir and self._has_hook_call(cf):
                    out.append(cf)
        return out

    def closure_adapter(self, c):
        """'star' (called any number of times, stops at the first error), 'opt' (at most once) or None"""
        if not c or c.get("krate") not in ("core", "std", "alloc"):
            return None
        meth = c.get("method") or c.get("path", "").rsplit("::", 1)[-1]
        if c.get("trait") in ("std::iter::Iterator", "std::iter::DoubleEndedIterator") and meth in self.STAR_ADAPTERS:
            return "star"
        if c.get("path", "").startswith(("std::option::Option::", "std::result::Result::", "std::bool::")) and meth in self.OPT_ADAPTERS:
            return "opt"
        return None

    def hook_fns(self):
        """Functions that can produce hook events: have a root parameter, or make DiffHook calls."""
        out = []
        for fn in self.prog.fn_list:
            if not fn.mir or fn.is_derived() or fn.kind == "Closure":
                continue
            if self.root.get(fn.path) is not None or self._has_hook_call(fn):
                out.append(fn)
        return out

    def _has_hook_call(self, fn):
        for bb, t in fn.mir.calls():
            c = fn.mir.callee(t)
            if c and (c.get("trait") == HOOK or self._callee_root(c) is not None):
                return True
            if c and fn.kind != "Closure" and any(a.get("k") == "closure" for a in c.get("args", []) if isinstance(a, dict)) \
                    and self.hook_closures(c):
                return True
        return False

    def _callee_fn(self, c):
        if c.get("trait") and c.get("resolved") and c.get("resolved_local"):
            return self.prog.fn(c["resolved"])
        if c.get("local") and not c.get("trait"):
            return self.prog.fn(c["path"])
        return None

    def _callee_root(self, c):
        g = self._callee_fn(c)
        if g is None:
            return None
        return self.root.get(g.path)

    # ---- impl lookup -----------------------------------------------------
    def find_impl(self, ty):
        for imp in self.impls:
            b = {}
            if unify(imp["self_ty"], ty, b):
                return imp, b
        return None, None

    def _impl_is_leaf(self, imp):
        for mp in imp["methods"].values():
            g = self.prog.fn(mp)
            if g is not None and self.root.get(g.path) is not None:
                return False
        return True

    # ---- type-directed evaluation -----------------------------------------
    def eval_type(self, ty, method, ctx_root, mode, depth=0):
        """Traces on the caller's root produced by calling `method` on a hook of type `ty`."""
        if depth > 12:
            return {BAD}
        if isinstance(ty, dict) and ty.get("k") == "param":
            if ctx_root is not None and ty["i"] == ctx_root[0]:
                return {"f" if method == "finish" else "e"}
            return {BAD + ":param"}
        imp, b = self.find_impl(ty)
        if imp is None:
            return {BAD + ":noimpl"}
        if self._impl_is_leaf(imp):
            # leaf hook (Capture): the call itself is the event on the leaf, overridden or not
            if ctx_root is None:
                return {"f" if method == "finish" else "e"}
            return {""}
        mp = imp["methods"].get(method)
        if mp is None:
            # trait default body evaluated with Self := ty (method-level, no e-class collapsing)
            dp = self.defaults.get(method)
            g = self.prog.fn(dp) if dp else None
            if g is None:
                return {BAD + ":nodefault"}
            key = ("default", method, repr(ty), ctx_root, mode)
            if key in self._active:
                return {BAD + ":recursive-default"}
            self._active.add(key)
            try:
                return self._flow(g, mode, bind={0: ty}, ctx_root=ctx_root, depth=depth + 1)
            finally:
                self._active.discard(key)
        g = self.prog.fn(mp)
        if g is None:
            return {BAD + ":nofn"}
        groot = self.root.get(g.path)
        traces = self._summary(g, mode)
        if groot is None:
            return {BAD + ":rootless-impl-method"}
        inner = b.get(groot[0])
        if inner is None:
            return {BAD + ":unbound"}
        return self.push(traces, inner, ctx_root, mode, depth + 1)

    def push(self, traces, ty, ctx_root, mode, depth=0):
        """Push traces over {e,f} on a hook of type `ty` down to the caller's root."""
        if not traces:
            return set()
        E = None
        F = None
        out = set()
        for tr in traces:
            if tr.startswith(BAD):
                out.add(BAD)
                continue
            cur = {""}
            for ch in tr:
                if ch == "e":
                    if E is None:
                        E = set()
                        for m in EMIT:
                            E |= self.eval_type(ty, m, ctx_root, mode, depth + 1)
                    if any(x.startswith(BAD) for x in E):
                        cur = {BAD}
                    elif E <= {"", "e"}:
                        # e+ : one or more emission calls, each producing "" or "e"
                        step = set()
                        if "e" in E:
                            step.add("e")
                        if "" in E:
                            step.add("")
                        cur = cat(cur, step)
                    else:
                        # an emission method that finishes the inner hook: repeated calls finish repeatedly
                        rep = set(E) | cat(E, E)
                        cur = cat(cur, rep)
                else:
                    if F is None:
                        F = self.eval_type(ty, "finish", ctx_root, mode, depth + 1)
                    cur = cat(cur, {BAD if x.startswith(BAD) else x for x in F})
            out |= cur
        return out

    # ---- summaries (least fixpoint over the call graph) ---------------------
    def _summary(self, fn, mode):
        return (self.sum_ok if mode == "ok" else self.sum_any).get(fn.path, set())

    def compute(self):
        self.run_b1()
        fns = self.hook_fns()
        for fn in fns:
            self.sum_ok[fn.path] = set()
            self.sum_any[fn.path] = set()
        for _ in range(40):
            changed = False
            for fn in fns:
                for mode, store in (("ok", self.sum_ok), ("any", self.sum_any)):
                    new = self._flow(fn, mode)
                    if not new <= store[fn.path]:
                        store[fn.path] = store[fn.path] | new
                        changed = True
            if not changed:
                break
        else:
            self.problems.append(("<all>", "no-fixpoint", "summary computation did not converge", 0))

    def call_effect(self, fn, t, mode, bind=None, ctx_root=None, depth=0):
        """Set of traces contributed by one call terminator (None = not hook relevant).

        With `bind` the function body is evaluated in a caller's context: its type parameters are
        substituted and events are expressed on `ctx_root`."""
        m = fn.mir
        c = m.callee(t)
        root = ctx_root if bind is not None else self.root.get(fn.path)
        if c is None:
            return None
        sub = (lambda ty: subst(ty, bind)) if bind is not None else (lambda ty: ty)
        if c.get("trait") == HOOK:
            return self.eval_type(sub(c["self_ty"]), c["method"], root, mode, depth + 1)
        cfs = self.hook_closures(c) if any(isinstance(a, dict) and a.get("k") == "closure" for a in c.get("args", [])) else []
        if cfs:
            kind = self.closure_adapter(c)
            if kind is None or len(cfs) != 1 or depth > 6:
                return {BAD + ":closure"}
            cf = cfs[0]
            self.closure_ok.add(cf.path)
            # a closure shares its parent's generics: its hook calls are expressed on the parent's root
            inner = self._flow(cf, mode, bind if bind is not None else {}, root, depth + 1)
            if not inner:
                inner = {""}
            acc = {""} | set(inner)
            if kind == "opt" and mode == "ok" and c.get("path", "").startswith("std::result::Result::") and \
                    c.get("path", "").endswith(("::and_then", "::map")) and self.is_hook_result(self._dest_ty(fn, t)):
                # `res.and_then(|()| d.finish())`: the value is Ok only if the closure ran (and returned Ok)
                acc = set(inner)
            if kind == "star":
                for _ in range(4):
                    nxt = acc | cat(acc, inner)
                    if nxt == acc:
                        break
                    acc = nxt
            return acc
        g = self._callee_fn(c)
        if g is not None:
            groot = self.root.get(g.path)
            if groot is not None:
                args = c["args"]
                if groot[0] >= len(args):
                    return {BAD + ":arity"}
                return self.push(self._summary(g, mode), sub(args[groot[0]]), root, mode, depth + 1)
        return None

    def _dest_ty(self, fn, t):
        d = t["dest"]
        return fn.mir.local_ty(d["l"]) if not d["proj"] else None

    def _flow(self, fn, mode, bind=None, ctx_root=None, depth=0):
        m = fn.mir
        cut = self.err_edges.get(fn.path, set()) if mode == "ok" else set()
        instate = {0: {""}}
        work = [0]
        rets = set()
        effects = {}
        while work:
            b = work.pop()
            st = instate[b]
            t = m.blocks[b]["term"]
            out = st
            if t["k"] == "call":
                if b not in effects:
                    effects[b] = self.call_effect(fn, t, mode, bind, ctx_root, depth)
                eff = effects[b]
                if eff is not None:
                    out = cat(st, eff)
            if t["k"] == "return":
                rets |= out
                continue
            for s in m.succs(b):
                if (b, s) in cut:
                    continue
                old = instate.get(s)
                if old is None or not out <= old:
                    instate[s] = (old or set()) | out
                    work.append(s)
        return rets

    # ---- B1 / B2 ----------------------------------------------------------
    def is_hook_result(self, tyj):
        """Result<_, <X as DiffHook>::Error>"""
        if isinstance(tyj, dict) and tyj.get("k") == "adt" and tyj["path"] == "std::result::Result":
            a = [x for x in tyj["args"] if x.get("k") != "lt"]
            if len(a) == 2 and a[1].get("k") == "alias" and a[1].get("path") == HOOK + "::Error":
                return True
        return False

    def is_event_call(self, fn, t):
        c = fn.mir.callee(t)
        if not c:
            return False
        if c.get("trait") == HOOK:
            return True
        g = self._callee_fn(c)
        if g is not None and (self.root.get(g.path) is not None):
            return True
        return False

    def run_b1(self):
        if self._b1_done:
            return
        self._b1_done = True
        for fn in self.prog.fn_list:
            if not fn.mir or fn.is_derived():
                continue
            m = fn.mir
            recs = []
            edges = set()
            for bb, t in m.calls():
                d = t["dest"]
                dty = m.local_ty(d["l"]) if not d["proj"] else None
                if dty is None or not self.is_hook_result(dty):
                    continue
                c = m.callee(t)
                if c and c["path"] in ("std::ops::FromResidual::from_residual",) or (c and c.get("trait") in (
                        "std::ops::Try", "std::ops::FromResidual")):
                    continue
                if c and c.get("krate") in ("core", "std", "alloc") and not c.get("trait") == HOOK:
                    # constructing a result through std helpers (Ok(..) is an aggregate, not a call) -- unless the helper
                    # drives a closure that talks to a hook (`iter.try_for_each(|op| op.apply_to_hook(d))`): that result
                    # is a hook result like any other
                    if not (any(isinstance(a, dict) and a.get("k") == "closure" for a in c.get("args", [])) and self.hook_closures(c)):
                        continue
                rec = B1Site(self, fn, bb, t)
                rec.analyse()
                recs.append(rec)
                edges |= rec.err_edges
            self.sites[fn.path] = recs
            self.err_edges[fn.path] = edges


RES, CF, RSD, ERR, ISERR, ISOK = "RES", "CF", "RSD", "ERR", "ISERR", "ISOK"


class B1Site:
    """One call producing a hook Result; path exploration from the call to the returns."""

    def __init__(self, pr, fn, bb, t):
        self.pr = pr
        self.fn = fn
        self.bb = bb
        self.t = t
        self.problems = []      # (kind, msg, line)
        self.err_edges = set()
        self.idiom = set()
        self.after_err_events = []

    def desc(self):
        return self.t.get("src") or (self.fn.mir.callee(self.t) or {}).get("path", "?")

    def analyse(self):
        m = self.fn.mir
        t = self.t
        dest = t["dest"]["l"]
        kinds0 = {dest: RES}
        ret0 = RES if dest == 0 else None
        if dest == 0:
            self.idiom.add("tail")
        if t["target"] is None:
            return
        seen = set()
        stack = [(t["target"], "unk", tuple(sorted(kinds0.items())), ret0)]
        steps = 0
        while stack:
            b, mode, kt, ret = stack.pop()
            key = (b, mode, kt, ret)
            if key in seen:
                continue
            seen.add(key)
            steps += 1
            if steps > 4000:
                self.problems.append(("budget", "path exploration budget exceeded", t["line"]))
                return
            kinds = dict(kt)
            blk = m.blocks[b]
            if blk["cleanup"]:
                continue
            # the same call reached again without the result having been examined: ignored in a loop
            if b == self.bb and mode == "unk":
                self.problems.append(("ignored", "result of `%s` is never examined before the call is reached again"
                                      % self.desc(), t["line"]))
                continue
            for s in blk["stmts"]:
                if s["k"] != "assign":
                    continue
                dst = s["p"]
                rv = s["rv"]
                srck = None
                if rv["k"] == "use" and rv["op"]["k"] in ("copy", "move"):
                    sp = rv["op"]["p"]
                    base = kinds.get(sp["l"])
                    if base and not sp["proj"]:
                        srck = base
                    elif base:
                        # payload reads: (CF as Break).0 -> residual ; (RES as Err).0 -> error
                        dc = [e for e in sp["proj"] if isinstance(e, dict) and "downcast" in e]
                        if base == CF and dc and dc[0]["downcast"] == "Break":
                            srck = RSD
                        elif base == RES and dc and dc[0]["downcast"] == "Err":
                            srck = ERR
                        elif base == RSD and dc and dc[0]["downcast"] == "Err":
                            srck = ERR
                elif rv["k"] == "aggregate" and rv.get("ak") == "adt" and rv.get("adt") == "std::result::Result" \
                        and rv.get("variant") == "Err" and rv["ops"]:
                    o = rv["ops"][0]
                    if o["k"] in ("copy", "move") and not o["p"]["proj"] and kinds.get(o["p"]["l"]) == ERR:
                        srck = RES
                        self.idiom.add("explicit-Err(e)")
                elif rv["k"] == "discr":
                    pass
                if not dst["proj"]:
                    if srck:
                        kinds[dst["l"]] = srck
                        if dst["l"] == 0:
                            ret = srck
                            if srck == RES and mode == "unk":
                                self.idiom.add("return-value")
                    else:
                        if dst["l"] in kinds:
                            del kinds[dst["l"]]
                        if dst["l"] == 0:
                            ret = None
            tt = blk["term"]
            k = tt["k"]
            if k == "return":
                if mode == "err":
                    if ret not in (RES, ERR):
                        self.problems.append(("err-not-returned", "on the error branch of `%s` the function returns "
                                              "a value that is not that error" % self.desc(), tt.get("line", t["line"])))
                elif mode == "unk":
                    if ret != RES:
                        self.problems.append(("ignored", "result of `%s` is dropped without being examined or "
                                              "returned" % self.desc(), t["line"]))
                continue
            if k == "call":
                c = m.callee(tt)
                args = tt["args"]
                akinds = []
                for a in args:
                    if a["k"] in ("copy", "move") and not a["p"]["proj"]:
                        akinds.append(kinds.get(a["p"]["l"]))
                    else:
                        akinds.append(None)
                ref_of = self._ref_kinds(m, kinds, args)
                nk = dict(kinds)
                d = tt["dest"]["l"] if not tt["dest"]["proj"] else None
                handled = False
                if c and c.get("trait") == "std::ops::Try" and c.get("method") == "branch" and akinds and akinds[0] == RES:
                    if d is not None:
                        nk[d] = CF
                    self.idiom.add("?")
                    handled = True
                elif c and c.get("trait") == "std::ops::FromResidual" and akinds and akinds[0] == RSD:
                    if d is not None:
                        nk[d] = RES
                        if d == 0:
                            ret = RES
                    handled = True
                elif c and c["path"] in ("std::result::Result::<T, E>::is_err", "std::result::Result::<T, E>::is_ok") \
                        and ref_of and ref_of[0] == RES:
                    if d is not None:
                        nk[d] = ISERR if c["path"].endswith("is_err") else ISOK
                    self.idiom.add("is_err")
                    handled = True
                elif c and c.get("trait") == "std::convert::From" and akinds and akinds[0] == ERR:
                    # `?`-style conversion E -> E (identity From) keeps the error
                    if d is not None:
                        nk[d] = ERR
                    handled = True
                elif c and c.get("path", "") in ("std::result::Result::<T, E>::and_then", "std::result::Result::<T, E>::map") \
                        and akinds and akinds[0] == RES and d is not None and self.pr.is_hook_result(m.local_ty(d)):
                    # `res.and_then(|()| next_step())`: an Err of `res` is the Err of the value; the closure runs only
                    # after an Ok -- the result lives on in the destination
                    nk[d] = RES
                    if d == 0:
                        ret = RES
                    self.idiom.add("and_then")
                    handled = True
                if not handled:
                    used = [x for x in akinds + ref_of if x in (RES, CF, RSD, ERR)]
                    if used and mode != "ok":
                        self.problems.append(("consumed", "result of `%s` is consumed by `%s` instead of being "
                                              "propagated" % (self.desc(), c["path"] if c else "?"), tt["line"]))
                        continue
                    if self.pr.is_event_call(self.fn, tt):
                        if mode == "err":
                            self.after_err_events.append((tt["line"], tt.get("src", "")))
                            continue
                        if mode == "unk" and ret != RES:
                            self.problems.append(("ignored", "hook is called again (`%s`) while the result of `%s` "
                                                  "has not been examined" % (tt.get("src", "?"), self.desc()), tt["line"]))
                            continue
                    if d is not None and d in nk:
                        del nk[d]
                    if d == 0:
                        ret = None
                if tt["target"] is not None:
                    stack.append((tt["target"], mode, tuple(sorted(nk.items())), ret))
                continue
            if k == "switch":
                dk = self._discr_kind(m, b, tt, kinds)
                if dk in (RES, CF, ISERR, ISOK) and mode == "unk":
                    for val, tgt in zip(tt["values"], tt["targets"]):
                        v = int(val)
                        if dk in (RES, CF):
                            nm = "ok" if v == 0 else "err"
                        elif dk == ISERR:
                            nm = "ok" if v == 0 else "err"
                        else:
                            nm = "err" if v == 0 else "ok"
                        self._branch(stack, b, tgt, nm, kinds, ret)
                    # otherwise edge
                    if dk in (ISERR,):
                        self._branch(stack, b, tt["otherwise"], "err", kinds, ret)
                    elif dk in (ISOK,):
                        self._branch(stack, b, tt["otherwise"], "ok", kinds, ret)
                    elif len(tt["values"]) < 2:
                        # `if let Err(e) = r` lowers to a single-value switch: otherwise = the other variant
                        v = int(tt["values"][0])
                        self._branch(stack, b, tt["otherwise"], "err" if v == 0 else "ok", kinds, ret)
                    continue
                for s in m.succs(b):
                    stack.append((s, mode, tuple(sorted(kinds.items())), ret))
                continue
            for s in m.succs(b):
                stack.append((s, mode, tuple(sorted(kinds.items())), ret))

    def _branch(self, stack, b, tgt, nm, kinds, ret):
        if nm == "err":
            self.err_edges.add((b, tgt))
            stack.append((tgt, "err", tuple(sorted(kinds.items())), ret))
        # ok branch: obligation discharged for this path

    def _ref_kinds(self, m, kinds, args):
        """kinds of tracked values passed by reference (temp = &tracked)."""
        out = []
        for a in args:
            k = None
            if a["k"] in ("copy", "move") and not a["p"]["proj"]:
                sd = m.single_def(a["p"]["l"])
                if sd and sd[2] == "assign" and sd[3]["k"] == "ref" and not sd[3]["p"]["proj"]:
                    k = kinds.get(sd[3]["p"]["l"])
            out.append(k)
        return out

    def _discr_kind(self, m, b, tt, kinds):
        d = tt["discr"]
        if d["k"] not in ("copy", "move") or d["p"]["proj"]:
            return None
        l = d["p"]["l"]
        if kinds.get(l) in (ISERR, ISOK):
            return kinds[l]
        # l = discriminant(place) assigned in this block
        for s in reversed(m.blocks[b]["stmts"]):
            if s["k"] == "assign" and not s["p"]["proj"] and s["p"]["l"] == l:
                if s["rv"]["k"] == "discr" and not s["rv"]["p"]["proj"]:
                    return kinds.get(s["rv"]["p"]["l"])
                return None
        return None


_cache = {}


def proto(prog):
    k = id(prog)
    if k not in _cache:
        p = Proto(prog)
        p.compute()
        _cache[k] = p
    return _cache[k]


def _is_infallible_site(fn, t):
    return False


# ---------------------------------------------------------------------------- rules
def rule_B1(prog):
    r = RuleResult("B1", "the Result of every DiffHook call / hook-driving local call reaches the caller's return "
                         "value unchanged: `?`, tail expression, `return r`, or an explicit Err arm that returns "
                         "that error; it is never dropped, `let _`-ed, `.ok()`-ed, unwrapped or mapped")
    pr = proto(prog)
    for path, recs in sorted(pr.sites.items()):
        for s in recs:
            r.instances += 1
            bad = [p for p in s.problems]
            r.ob(not bad, "%s: `%s` line %d -> %s" % (path, s.desc(), s.t["line"],
                                                      "/".join(sorted(s.idiom)) if not bad else bad[0][1]))
            for kind, msg, line in bad:
                r.find(path, "%s:%s" % (kind, _site_id(s)), msg, file=s.fn.file, line=line)
    # unwrap()/expect() on hook results are exempt only for an Infallible error type: look for them explicitly
    for fn in prog.user_fns():
        if not fn.mir:
            continue
        for bb, t in fn.mir.calls():
            c = fn.mir.callee(t)
            if c and c["path"].startswith("std::result::Result::<T, E>::") and c["path"].rsplit("::", 1)[-1] in (
                    "unwrap", "expect", "unwrap_or_default", "ok", "unwrap_or", "unwrap_or_else", "is_ok", "is_err",
                    "map_err", "unwrap_unchecked"):
                a = targs(c)
                if len(a) == 2 and a[1].get("k") == "alias" and a[1].get("path") == HOOK + "::Error":
                    # generic error type: already reported through the site analysis (consumed)
                    continue
    return r


def _site_id(s):
    c = s.fn.mir.callee(s.t) or {}
    name = c.get("method") or c.get("path", "?").rsplit("::", 1)[-1]
    # ordinal among same-named call sites of the function, in block order
    same = [x for x in s.pr.sites[s.fn.path] if ((x.fn.mir.callee(x.t) or {}).get("method") or
                                                  (x.fn.mir.callee(x.t) or {}).get("path", "?").rsplit("::", 1)[-1]) == name]
    same.sort(key=lambda x: (x.t["line"], x.bb))
    return "%s#%d" % (name, same.index(s) + 1)


def rule_B2(prog):
    r = RuleResult("B2", "after a hook call returned an error, no further hook call is reachable before the "
                         "function returns")
    pr = proto(prog)
    for path, recs in sorted(pr.sites.items()):
        for s in recs:
            if not s.err_edges and not s.after_err_events:
                continue
            r.instances += 1
            r.ob(not s.after_err_events, "%s: error branch of `%s` (line %d): %d hook call(s) reachable" % (
                path, s.desc(), s.t["line"], len(s.after_err_events)))
            for line, src in s.after_err_events[:1]:
                r.find(path, "after-error:%s" % _site_id(s),
                       "hook call `%s` is reachable on the error branch of `%s`" % (src, s.desc()),
                       file=s.fn.file, line=line)
    return r


DRIVER_NAMES = ("diff", "diff_deadline", "diff_slices", "diff_slices_deadline")


def _role(pr, fn):
    """driver | adapter-finish | nofinish-finish | emit | helper | leaf-driver"""
    if fn.impl and fn.impl.get("trait") == HOOK:
        if fn.name == "finish":
            if ty_head(fn.impl["self_ty"]) == "algorithms::hook::NoFinishHook":
                return "nofinish-finish"
            return "adapter-finish"
        return "emit"
    if fn.raw.get("trait_default_of") == HOOK:
        return "adapter-finish" if fn.name == "finish" else "emit"
    if pr.root.get(fn.path) is not None:
        if fn.name in DRIVER_NAMES and fn.module.startswith("algorithms") and fn.public:
            return "driver"
        return "helper"
    return "leaf-driver"


def rule_B3(prog):
    r = RuleResult("B3", "on the Ok exit every diff entry point produces e* f on its hook (finish exactly once, "
                         "nothing after it), for the bare hook and through every adapter stack; helpers and adapter "
                         "emission methods never finish; adapter finish = e* f on the inner hook (NoFinishHook: "
                         "nothing); on error exits at most one finish and nothing after it")
    pr = proto(prog)
    for path, detail, msg, line in pr.problems:
        r.find(path, detail, msg, line=line)
    roles = {}
    for fn in pr.hook_fns():
        role = _role(pr, fn)
        roles[fn.path] = role
        ok_s = pr.sum_ok.get(fn.path, set())
        any_s = pr.sum_any.get(fn.path, set())
        r.instances += 1
        if role == "driver":
            want_ok, want_any = OK_DRIVER, NOTHING_AFTER_FINISH
        elif role == "adapter-finish":
            want_ok, want_any = OK_DRIVER | ({"f", "ef"} if pr.root.get(fn.path) else {""}), NOTHING_AFTER_FINISH
            if pr.root.get(fn.path) is None:
                want_ok = {""}       # leaf (Capture) or trait default: no inner hook
                want_any = {""}
            if fn.raw.get("trait_default_of") == HOOK:
                want_ok = {""}
                want_any = {""}
        elif role == "nofinish-finish":
            want_ok, want_any = {""}, {""}
        elif role in ("emit", "helper"):
            want_ok, want_any = NO_FINISH, NO_FINISH
        else:
            # leaf driver (capture_diff*): the leaf hook must see e* f
            want_ok, want_any = OK_DRIVER, NOTHING_AFTER_FINISH
            if not ok_s and not any_s:
                continue
        bad_ok = sorted(x for x in ok_s if x not in want_ok)
        bad_any = sorted(x for x in any_s if x not in want_any)
        empty = (role in ("driver", "adapter-finish", "leaf-driver") and not ok_s and want_ok != {""})
        ok = not bad_ok and not bad_any and not empty
        r.ob(ok, "%s [%s]: Ok-exit traces %s, all-exit traces %s" % (path_short(fn.path), role, sorted(ok_s), sorted(any_s)))
        if bad_ok:
            r.find(fn.path, "ok-trace:" + ",".join(bad_ok),
                   "%s (%s): on the Ok exit the hook sees %s; required %s (e = emissions, f = finish)" % (
                       path_short(fn.path), role, _explain(bad_ok), sorted(want_ok)), file=fn.file, line=fn.line)
        if bad_any and not bad_ok:
            r.find(fn.path, "any-trace:" + ",".join(bad_any),
                   "%s (%s): on some exit the hook sees %s; allowed %s" % (
                       path_short(fn.path), role, _explain(bad_any), sorted(want_any)), file=fn.file, line=fn.line)
        if empty:
            r.find(fn.path, "no-ok-exit", "%s (%s): no Ok exit produces a trace (finish unreachable?)" % (
                path_short(fn.path), role), file=fn.file, line=fn.line)
    # closures must not talk to hooks (invocation count would be unknown)
    for fn in prog.fn_list:
        if fn.kind == "Closure" and fn.mir and fn.path not in pr.closure_ok:
            for bb, t in fn.mir.calls():
                c = fn.mir.callee(t)
                if c and c.get("trait") == HOOK:
                    r.find(fn.path, "closure-hook-call", "DiffHook call inside a closure: the number of invocations is "
                           "not visible to the summary", file=fn.file, line=t["line"])
    # synthetic stacks: every driver instantiated with each adapter stack over an opaque user hook U
    drivers = [fn for fn in pr.hook_fns() if roles.get(fn.path) == "driver"]
    U = {"k": "param", "n": "U", "i": 9999}
    stacks = _stacks(pr, U)
    for fn in drivers:
        for name, ty, want in stacks:
            got = pr.push(pr.sum_ok[fn.path], ty, (9999, "U"), "ok")
            got_any = pr.push(pr.sum_any[fn.path], ty, (9999, "U"), "any")
            want_any = NOTHING_AFTER_FINISH if want == OK_DRIVER else NO_FINISH
            ok = bool(got) and got <= want and got_any <= want_any
            r.instances += 1
            r.ob(ok, "%s with hook %s: user hook sees Ok %s / any %s" % (path_short(fn.path), name, sorted(got), sorted(got_any)))
            if not ok:
                r.find(fn.path, "stack:" + name,
                       "%s driven with %s: the user hook sees %s on Ok exits and %s on all exits; required %s" % (
                           path_short(fn.path), name, _explain(sorted(got)), _explain(sorted(got_any)), sorted(want)),
                       file=fn.file, line=fn.line)
    r.counters["drivers"] = len(drivers)
    r.counters["stacks"] = len(stacks)
    return r


def _stacks(pr, U):
    def adt(path, *args):
        return {"k": "adt", "path": path, "args": list(args)}

    def mref(t):
        return {"k": "ref", "mut": True, "t": t}
    lt = {"k": "lt"}
    O = {"k": "param", "n": "O", "i": 9998}
    N = {"k": "param", "n": "N", "i": 9997}
    rep = lambda t: adt("algorithms::replace::Replace", t)
    comp = lambda t: adt("algorithms::compact::Compact", lt, lt, O, N, t)
    nof = lambda t: adt("algorithms::hook::NoFinishHook", t)
    return [
        ("U", U, OK_DRIVER),
        ("&mut U", mref(U), OK_DRIVER),
        ("&mut &mut U", mref(mref(U)), OK_DRIVER),
        ("Replace<U>", rep(U), OK_DRIVER),
        ("Compact<U>", comp(U), OK_DRIVER),
        ("Compact<Replace<U>>", comp(rep(U)), OK_DRIVER),
        ("Replace<Compact<U>>", rep(comp(U)), OK_DRIVER),
        ("Replace<&mut U>", rep(mref(U)), OK_DRIVER),
        ("NoFinishHook<U>", nof(U), NO_FINISH),
        ("NoFinishHook<Replace<U>>", nof(rep(U)), NO_FINISH),
        ("Replace<NoFinishHook<U>>", rep(nof(U)), NO_FINISH),
    ]


def _explain(traces):
    names = {"": "nothing", "e": "emissions only (no finish)", "f": "finish", "ef": "emissions, finish",
             "fe": "finish followed by emissions", "efe": "emissions, finish, emissions", BAD: "finish more than once"}
    return ", ".join("`%s` (%s)" % (t, names.get(t, "unresolvable hook type" if t.startswith(BAD) else t)) for t in traces)


def path_short(p):
    import re
    p = re.sub(r"'[a-z_]+, ", "", p)
    p = re.sub(r"<'[a-z_]+>", "", p)
    return p


# ------------------------------------------------------------------ B4 forwarding tables
def _hook_calls(fn):
    out = []
    for bb, t in fn.mir.calls():
        c = fn.mir.callee(t)
        if c and c.get("trait") == HOOK:
            out.append((bb, t, c))
    return out


def _param_index(m, term):
    """If resolved term is exactly parameter _i (possibly reborrowed), return i."""
    while term and term[0] in ("ref", "deref"):
        term = term[1]
    if term and term[0] == "local" and term[2] <= m.arg_count:
        return term[2]
    return None


def rule_B4(prog):
    r = RuleResult("B4", "forwarding hooks forward faithfully: `&mut D` and NoFinishHook<D> send each of "
                         "equal/delete/insert/replace to the same-named inner method with their own parameters in "
                         "order; `&mut D` forwards finish once, NoFinishHook makes no call; the default `replace` is "
                         "delete(old_index, old_len, new_index) then insert(old_index, new_index, new_len); "
                         "Capture::m / Compact::m push DiffOp::M with fields from the same-named parameters")
    pr = proto(prog)
    for imp in pr.impls:
        head = ty_head(imp["self_ty"])
        kind = None
        if imp["self_ty"].get("k") == "ref":
            kind = "refmut"
        elif head == "algorithms::hook::NoFinishHook":
            kind = "nofinish"
        elif head in ("algorithms::capture::Capture", "algorithms::compact::Compact"):
            kind = "push"
        if kind is None:
            continue
        for name in METHODS:
            mp = imp["methods"].get(name)
            if kind in ("refmut", "nofinish"):
                if mp is None:
                    if kind == "nofinish" and name == "finish":
                        # falling back to the trait default (no call) is equivalent
                        r.ob(True, "%s::finish not overridden: default makes no call" % head)
                        continue
                    r.instances += 1
                    r.ob(False, "%s lacks %s" % (head, name))
                    r.find(imp["raw"]["path"], "missing:" + name,
                           "forwarding impl for %s does not override `%s`: calls fall back to the trait default "
                           "instead of reaching the inner hook" % (ty_s(imp["self_ty"]), name),
                           file=imp["raw"]["file"], line=imp["raw"]["line"])
                    continue
                fn = prog.fn(mp)
                calls = _hook_calls(fn)
                r.instances += 1
                if kind == "nofinish" and name == "finish":
                    ok = not calls
                    r.ob(ok, "NoFinishHook::finish makes %d inner call(s)" % len(calls))
                    if not ok:
                        r.find(fn.path, "nofinish-calls", "NoFinishHook::finish calls the inner hook", file=fn.file, line=fn.line)
                    continue
                ok = len(calls) == 1 and calls[0][2]["method"] == name
                detail = ""
                if ok:
                    bb, t, c = calls[0]
                    idx = [_param_index(fn.mir, fn.mir.resolve_operand(a)) for a in t["args"][1:]]
                    want = list(range(2, 2 + len(idx)))
                    ok = idx == want and t["dest"]["l"] == 0
                    detail = "args=%s" % idx
                r.ob(ok, "%s::%s forwards to inner `%s` %s" % (ty_s(imp["self_ty"]), name,
                                                                 calls[0][2]["method"] if calls else "-", detail))
                if not ok:
                    r.find(fn.path, "forward:" + name,
                           "%s::%s must consist of one call to the inner hook's `%s` with its own parameters in "
                           "order; found %s" % (ty_s(imp["self_ty"]), name, name,
                                                [(c["method"], [term_str(fn.mir.resolve_operand(a)) for a in t["args"][1:]])
                                                 for _, t, c in calls] or "no inner call"),
                           file=fn.file, line=fn.line)
            elif kind == "push" and name in ("equal", "delete", "insert", "replace"):
                if mp is None:
                    continue
                fn = prog.fn(mp)
                r.instances += 1
                ok, why = _check_push(fn, name)
                r.ob(ok, "%s::%s pushes %s" % (head.rsplit("::", 1)[-1], name, why))
                if not ok:
                    r.find(fn.path, "push:" + name, "%s::%s must record DiffOp::%s with each field taken from the "
                           "same-named parameter; found %s" % (head.rsplit("::", 1)[-1], name, name.capitalize(), why),
                           file=fn.file, line=fn.line)
    # trait default replace
    dp = pr.defaults.get("replace")
    fn = prog.fn(dp) if dp else None
    r.instances += 1
    if fn is None:
        r.ob(False, "default replace not found")
        r.find(HOOK, "no-default-replace", "DiffHook::replace has no default body")
    else:
        calls = _hook_calls(fn)
        seq = [(c["method"], [_param_index(fn.mir, fn.mir.resolve_operand(a)) for a in t["args"][1:]]) for _, t, c in calls]
        # params: _1 self, _2 old_index, _3 old_len, _4 new_index, _5 new_len
        want = [("delete", [2, 3, 4]), ("insert", [2, 4, 5])]
        ok = seq == want
        if ok:
            ok = fn.mir.dominates(calls[0][0], calls[1][0])
        elif len(seq) == 1:
            # `self.delete(..).and_then(|()| self.insert(..))`: the second call sits in a closure that runs after an Ok
            from .facts import lift_upvars
            m_ = fn.mir
            for bb_, t_ in m_.calls():
                c_ = m_.callee(t_) or {}
                if c_.get("path") != "std::result::Result::<T, E>::and_then" or not m_.dominates(calls[0][0], bb_):
                    continue
                for a in c_.get("args", []):
                    cf = prog.fn(a.get("path", "")) if isinstance(a, dict) and a.get("k") == "closure" else None
                    if cf is None or not cf.mir:
                        continue
                    for _, ct, cc in _hook_calls(cf):
                        idxs = []
                        for arg in ct["args"][1:]:
                            _, lt, _ = lift_upvars(prog, cf, cf.mir.resolve_operand(arg))
                            idxs.append(_param_index(m_, lt))
                        seq.append((cc["method"], idxs))
            ok = seq == want
        r.ob(ok, "DiffHook::replace default = %s" % seq)
        if not ok:
            r.find(fn.path, "default-replace", "default replace must be delete(old_index, old_len, new_index) then "
                   "insert(old_index, new_index, new_len); found %s (numbers are parameter positions)" % seq,
                   file=fn.file, line=fn.line)
    # trait default finish / emission defaults make no call
    for name in METHODS:
        if name == "replace":
            continue
        dp = pr.defaults.get(name)
        fn = prog.fn(dp) if dp else None
        if fn is not None:
            r.instances += 1
            n = len(_hook_calls(fn))
            r.ob(n == 0, "DiffHook::%s default makes %d hook call(s)" % (name, n))
            if n:
                r.find(fn.path, "default-calls:" + name, "default DiffHook::%s calls back into the hook" % name,
                       file=fn.file, line=fn.line)
    return r


def _check_push(fn, name):
    m = fn.mir
    variant = name.capitalize()
    found = []
    for b in m.blocks:
        for s in b["stmts"]:
            if s["k"] == "assign" and s["rv"]["k"] == "aggregate" and s["rv"].get("adt") == "types::DiffOp":
                found.append(s["rv"])
    if len(found) != 1:
        return False, "%d DiffOp constructions" % len(found)
    rv = found[0]
    if rv["variant"] != variant:
        return False, "DiffOp::%s" % rv["variant"]
    # parameter names from debug info
    for fname, op in zip(rv["fields"], rv["ops"]):
        t = m.resolve_operand(op)
        while t and t[0] in ("ref", "deref"):
            t = t[1]
        if not (t and t[0] == "local" and t[1] == fname and t[2] <= m.arg_count):
            return False, "field %s <- %s" % (fname, term_str(t))
    def is_push(mm, t, depth=0):
        path = (mm.callee(t) or {}).get("path", "")
        if path.endswith("Vec::<T, A>::push"):
            return True
        g = fn.prog.fn(path) if depth < 2 else None
        if g is not None and g.mir is not None:
            # a recording helper (`fn record(&mut self, op: DiffOp)`): exactly one push, of one of its own parameters
            inner = [(b2, t2) for b2, t2 in g.mir.calls() if is_push(g.mir, t2, depth + 1)]
            if len(inner) == 1:
                a = g.mir.resolve_operand(inner[0][1]["args"][-1])
                # the helper records on every path: a conditional push (`if !op.is_empty() { .. }`) drops ops
                unconditional = not _b6_avoidable(g.mir, [inner[0][0]], set(g.mir.returns()))
                return bool(a and a[0] == "local" and isinstance(a[2], int) and 1 <= a[2] <= g.mir.arg_count) and unconditional
        return False
    pushes = [t for _, t in m.calls() if is_push(m, t)]
    if len(pushes) != 1:
        return False, "%d pushes" % len(pushes)
    return True, "DiffOp::%s{%s}" % (variant, ", ".join(rv["fields"]))


# ------------------------------------------------------------------ B5 buffer typestate
def _field_writes(m, field):
    """Blocks that write self.<field> (assign, or &mut self.<field> taken)."""
    out = []
    for i, b in enumerate(m.blocks):
        if b["cleanup"]:
            continue
        for s in b["stmts"]:
            if s["k"] != "assign":
                continue
            p = s["p"]
            if _is_self_field(p, field):
                out.append((i, s["line"]))
            rv = s["rv"]
            if rv["k"] == "ref" and rv["mut"] and _is_self_field(rv["p"], field):
                out.append((i, s["line"]))
    return out


def _is_self_field(p, field):
    if p["l"] != 1:
        return False
    names = [e.get("name") for e in p["proj"] if isinstance(e, dict) and "field" in e]
    return bool(names) and names[0] == field


def _calls_to(m, suffix):
    from .facts import short_path
    sfx = short_path(suffix)
    prog = m.fn.prog
    out = []
    for bb, t in m.calls():
        pth = (m.callee(t) or {}).get("path", "")
        if short_path(pth).endswith(sfx) or (pth and prog.canon(pth).endswith(sfx)):
            out.append((bb, t))
    return out


def _replace_flushers(prog, pr):
    """Inherent methods of Replace classified by what they emit on the inner hook:
    'eq' (only equal) / 'delins' (only delete, insert, replace).  Names are not used."""
    out = {}
    for fn in prog.user_fns():
        if not fn.mir or fn.kind == "Closure" or not fn.impl or fn.impl.get("trait"):
            continue
        if ty_head(fn.impl["self_ty"]) != "algorithms::replace::Replace":
            continue
        ms = {c["method"] for _, _, c in _hook_calls(fn)}
        if ms and ms <= {"equal"}:
            out.setdefault("eq", []).append(fn)
        elif ms and ms <= {"delete", "insert", "replace"}:
            out.setdefault("delins", []).append(fn)
    return out


def rule_B5(prog):
    r = RuleResult("B5", "Replace keeps `pending equal` and `pending delete/insert` mutually exclusive and flushes in "
                         "order: equal(): flush_del_ins dominates every write of self.eq; delete/insert/replace(): "
                         "flush_eq dominates every write of self.del/self.ins and every inner call; finish(): "
                         "flush_eq, flush_del_ins, inner finish in this order.  Compact::finish: cleanup, then a plain "
                         "loop over all buffered ops calling only apply_to_hook, then inner finish")
    pr = proto(prog)
    rep = None
    comp = None
    for imp in pr.impls:
        h = ty_head(imp["self_ty"])
        if h == "algorithms::replace::Replace":
            rep = imp
        elif h == "algorithms::compact::Compact":
            comp = imp
    if rep is None:
        r.find("algorithms::replace::Replace", "no-impl", "DiffHook impl for Replace not found")
    else:
        fl = _replace_flushers(prog, pr)
        eq_names = [f_.name for f_ in fl.get("eq", [])] or ["flush_eq"]
        di_names = [f_.name for f_ in fl.get("delins", [])] or ["flush_del_ins"]
        FLUSH_EQ, FLUSH_DI = eq_names[0], di_names[0]
        # the three buffer fields, by what writes them (their names are private and may change): the field `equal` writes
        # is the pending-equal buffer, the one `delete` writes the pending delete, the one `insert` writes the pending insert
        def written(meth):
            f_ = prog.fn(rep["methods"].get(meth, ""))
            names = set()
            if f_ is not None and f_.mir:
                for b in f_.mir.blocks:
                    for st in b["stmts"]:
                        if st["k"] != "assign":
                            continue
                        for place in (st["p"], st["rv"].get("p") if st["rv"]["k"] == "ref" and st["rv"].get("mut") else None):
                            if place and place["l"] == 1:
                                fs = [e.get("name") for e in place["proj"] if isinstance(e, dict) and "field" in e and
                                      "Option" in (e.get("ty") or "")]
                                if fs:
                                    names.add(fs[0])
            return names
        w_eq, w_del, w_ins = written("equal"), written("delete"), written("insert")
        F_EQ = next(iter(w_eq)) if len(w_eq) == 1 else "eq"
        F_DEL = next(iter(w_del - w_eq)) if len(w_del - w_eq) == 1 else "del"
        F_INS = next(iter(w_ins - w_eq - {F_DEL})) if len(w_ins - w_eq - {F_DEL}) == 1 else "ins"
        table = {"equal": (FLUSH_DI, [F_EQ]), "delete": (FLUSH_EQ, [F_DEL, F_INS]),
                 "insert": (FLUSH_EQ, [F_DEL, F_INS]), "replace": (FLUSH_EQ, [F_DEL, F_INS])}
        for name, (flush, fields) in table.items():
            fn = prog.fn(rep["methods"].get(name, ""))
            if fn is None:
                # not overriding replace -> default delete+insert goes through the overridden methods
                if name == "replace":
                    continue
                r.instances += 1
                r.ob(False, "Replace::%s missing" % name)
                r.find(rep["raw"]["path"], "missing:" + name, "Replace does not override `%s`" % name,
                       file=rep["raw"]["file"], line=rep["raw"]["line"])
                continue
            m = fn.mir
            fl = _calls_to(m, "Replace::" + flush)
            r.instances += 1
            if not fl:
                r.ob(False, "Replace::%s has no %s call" % (name, flush))
                r.find(fn.path, "no-flush", "Replace::%s never calls %s: a pending %s run would be emitted out of "
                       "order" % (name, flush, "delete/insert" if flush == "flush_del_ins" else "equal"),
                       file=fn.file, line=fn.line)
                continue
            fbb = fl[0][0]
            bad = []
            for f in fields:
                for wb, line in _field_writes(m, f):
                    if not (m.dominates(fbb, wb) and wb != fbb):
                        bad.append("write of self.%s at line %d" % (f, line))
            for bb, t, c in _hook_calls(fn):
                if not (m.dominates(fbb, bb) and bb != fbb):
                    bad.append("inner %s at line %d" % (c["method"], t["line"]))
            # the flush must itself be at the top: not dominated by any write of the *other* buffer
            r.ob(not bad, "Replace::%s: %s dominates writes of %s and inner calls%s" % (
                name, flush, "/".join("self." + f for f in fields), "" if not bad else " EXCEPT " + "; ".join(bad)))
            if bad:
                r.find(fn.path, "flush-order", "Replace::%s: %s does not dominate %s" % (name, flush, "; ".join(bad)),
                       file=fn.file, line=fn.line)
        fn = prog.fn(rep["methods"].get("finish", ""))
        r.instances += 1
        if fn is None:
            r.ob(False, "Replace::finish missing")
            r.find(rep["raw"]["path"], "missing:finish", "Replace does not override finish: pending runs are never "
                   "flushed", file=rep["raw"]["file"], line=rep["raw"]["line"])
        else:
            m = fn.mir
            a = _calls_to(m, "Replace::" + FLUSH_EQ)
            b = _calls_to(m, "Replace::" + FLUSH_DI)
            f = [(bb, t) for bb, t, c in _hook_calls(fn) if c["method"] == "finish"]
            ok = len(a) >= 1 and len(b) >= 1 and len(f) == 1 and m.dominates(a[0][0], b[0][0]) and m.dominates(b[0][0], f[0][0]) \
                and a[0][0] != b[0][0] and b[0][0] != f[0][0]
            r.ob(ok, "Replace::finish: flush_eq(%d) -> flush_del_ins(%d) -> inner finish(%d), ordered by dominance: %s" % (
                len(a), len(b), len(f), ok))
            if not ok:
                r.find(fn.path, "finish-order", "Replace::finish must call flush_eq, then flush_del_ins, then the "
                       "inner finish (found %d/%d/%d calls, order by dominance violated or a call missing)" % (
                           len(a), len(b), len(f)), file=fn.file, line=fn.line,
                       # the steps sit in closures of an `and_then` chain: the sequencing is not visible to this rule (B3
                       # still checks the hook trace of Replace::finish): undecided, not a violation
                       undecided=bool(len(a) + len(b) + len(f) < 3 and prog.closures_of.get(fn.path)))
        # flush helpers: flush_eq emits only `equal`, flush_del_ins emits replace|delete|insert and clears buffers
        for hn, allowed, fields in ((FLUSH_EQ, {"equal"}, [F_EQ]), (FLUSH_DI, {"delete", "insert", "replace"}, [F_DEL, F_INS])):
            fns = [f_ for f_ in prog.find("Replace::" + hn)]
            for f_ in fns:
                r.instances += 1
                ms = {c["method"] for _, _, c in _hook_calls(f_)}
                takes = []
                for bb, t in f_.mir.calls():
                    c = f_.mir.callee(t)
                    if c and c["path"] == "std::option::Option::<T>::take":
                        rt = f_.mir.resolve_operand(t["args"][0])
                        takes.append(term_str(rt))
                took = [fld for fld in fields if any(("self.%s" % fld) in s or (".%s" % fld) in s for s in takes)]
                ok = ms <= allowed and ms and len(took) == len(fields)
                r.ob(ok, "Replace::%s emits %s, takes %s" % (hn, sorted(ms), takes))
                if not ok:
                    r.find(f_.path, "flush-body", "Replace::%s must emit only %s and clear %s with take(); emits %s, "
                           "takes %s" % (hn, sorted(allowed), fields, sorted(ms), takes), file=f_.file, line=f_.line,
                           undecided=bool(not ms and prog.closures_of.get(f_.path)))     # the emission sits in a closure (`map_or`)
    if comp is None:
        r.find("algorithms::compact::Compact", "no-impl", "DiffHook impl for Compact not found")
    else:
        fn = prog.fn(comp["methods"].get("finish", ""))
        r.instances += 1
        if fn is None:
            r.ob(False, "Compact::finish missing")
            r.find(comp["raw"]["path"], "missing:finish", "Compact does not override finish: buffered ops are never "
                   "replayed", file=comp["raw"]["file"], line=comp["raw"]["line"])
        else:
            m = fn.mir
            cl = _calls_to(m, "compact::cleanup_diff_ops")
            ap = _calls_to(m, "DiffOp::apply_to_hook")
            fin = [(bb, t) for bb, t, c in _hook_calls(fn) if c["method"] == "finish"]
            others = [(bb, t, c) for bb, t, c in _hook_calls(fn) if c["method"] != "finish"]
            loops = m.loops()
            problems = []
            if len(cl) != 1:
                problems.append("%d cleanup_diff_ops calls" % len(cl))
            # the replay written as `self.ops.iter().try_for_each(|op| op.apply_to_hook(d))?`
            tfe = None
            if len(ap) == 0:
                for bb_, t_ in m.calls():
                    c_ = m.callee(t_) or {}
                    if c_.get("trait") == "std::iter::Iterator" and c_.get("method") == "try_for_each":
                        cp = [a.get("path") for a in c_.get("args", []) if isinstance(a, dict) and a.get("k") == "closure"]
                        cf = prog.fn(cp[0]) if cp else None
                        if cf is not None and cf.mir:
                            cap = _calls_to(cf.mir, "DiffOp::apply_to_hook")
                            csw = [b for b in cf.mir.blocks if b["term"]["k"] == "switch"]
                            src = term_str(m.expand(m.resolve_operand(t_["args"][0]), depth=3))
                            if len(cap) == 1 and not csw and "ops" in src and re.search(r"\b(iter|into_iter)\(", src) and \
                                    not re.search(r"\b(filter|skip|take|step_by|rev|skip_while|take_while|filter_map)\(", src):
                                tfe = (bb_, t_)
            if tfe is not None:
                if not fin:
                    # `...try_for_each(..).and_then(|()| d.finish())`: the inner finish runs iff the replay succeeded
                    for bb_, t_ in m.calls():
                        c_ = m.callee(t_) or {}
                        if c_.get("path", "").startswith("std::result::Result::") and c_.get("path", "").endswith("::and_then"):
                            cp = [a.get("path") for a in c_.get("args", []) if isinstance(a, dict) and a.get("k") == "closure"]
                            cf = prog.fn(cp[0]) if cp else None
                            if cf is not None and cf.mir:
                                hc = _hook_calls(cf)
                                if len(hc) == 1 and hc[0][2]["method"] == "finish":
                                    fin = [(bb_, t_)]
                if len(fin) != 1:
                    problems.append("%d inner finish calls" % len(fin))
                if others:
                    problems.append("direct emission calls %s" % [c["method"] for _, _, c in others])
                if not problems:
                    if not m.dominates(cl[0][0], tfe[0]):
                        problems.append("cleanup does not precede the replay")
                    if not m.dominates(tfe[0], fin[0][0]):
                        problems.append("inner finish is not preceded by the replay")
                    if any(tfe[0] in body for h, body in loops):
                        problems.append("the replay is inside a loop")
                r.ob(not problems, "Compact::finish: cleanup -> self.ops.iter().try_for_each(apply_to_hook) -> inner finish%s" % (
                    "" if not problems else " VIOLATED: " + "; ".join(problems)))
                if problems:
                    r.find(fn.path, "compact-finish", "Compact::finish shape violated: " + "; ".join(problems), file=fn.file, line=fn.line)
            else:
                if len(ap) != 1:
                    problems.append("%d apply_to_hook calls" % len(ap))
                if len(fin) != 1:
                    problems.append("%d inner finish calls" % len(fin))
                if others:
                    problems.append("direct emission calls %s" % [c["method"] for _, _, c in others])
                if not problems:
                    in_loop = [body for h, body in loops if ap[0][0] in body]
                    if not in_loop:
                        problems.append("apply_to_hook is not inside a loop")
                    else:
                        body = in_loop[0]
                        if cl[0][0] in body or not m.dominates(cl[0][0], ap[0][0]):
                            problems.append("cleanup does not precede the replay loop")
                        if fin[0][0] in body:
                            problems.append("inner finish is inside the replay loop")
                        if ap[0][0] in m.reach_from([fin[0][1]["target"]] if fin[0][1]["target"] is not None else []):
                            problems.append("replay reachable after inner finish")
                        # plain iteration over the whole buffer: into_iter(&self.ops) -> next, no adapter, no branch skipping
                        its = [(bb, t) for bb, t in m.calls() if (m.callee(t) or {}).get("trait") in ("std::iter::IntoIterator", "std::iter::Iterator")]
                        meths = [(m.callee(t) or {}).get("method") for _, t in its]
                        if sorted(meths) != ["into_iter", "next"]:
                            problems.append("replay loop uses iterator methods %s (expected plain into_iter/next)" % meths)
                        else:
                            src = m.resolve_operand([t for _, t in its if m.callee(t)["method"] == "into_iter"][0]["args"][0])
                            s = term_str(src)
                            if "ops" not in s:
                                problems.append("loop iterates %s, not self.ops" % s)
                        # every iteration that yields Some must reach apply_to_hook: in the loop body, the only
                        # conditional exits are the iterator's None and the error branch of apply_to_hook
                        sw = [b for b in body if m.blocks[b]["term"]["k"] == "switch"]
                        if len(sw) > 2:
                            problems.append("replay loop has %d conditional branches (ops may be skipped)" % len(sw))
                r.ob(not problems, "Compact::finish: cleanup -> loop{apply_to_hook over self.ops} -> inner finish%s" % (
                    "" if not problems else " VIOLATED: " + "; ".join(problems)))
                if problems:
                    r.find(fn.path, "compact-finish", "Compact::finish shape violated: " + "; ".join(problems), file=fn.file,
                           line=fn.line)
        for name in ("equal", "delete", "insert", "replace"):
            fn = prog.fn(comp["methods"].get(name, ""))
            if fn is None:
                continue
            r.instances += 1
            n = len(_hook_calls(fn))
            r.ob(n == 0, "Compact::%s makes %d inner call(s) (must buffer only)" % (name, n))
            if n:
                r.find(fn.path, "compact-emits", "Compact::%s calls the inner hook directly: the op bypasses the "
                       "buffer and is delivered out of order" % name, file=fn.file, line=fn.line)
    return r


def _b6_field_path(proj, closure=False):
    """`(*_1).old.current` -> 'old.current' (names of the field projections of a place rooted at self).  In a closure the
    place is rooted at the captured `self` (`(*(*_1).0).old_current`): the leading environment slot is dropped."""
    names = [e.get("name") if e.get("name") is not None else str(e.get("field")) for e in proj if isinstance(e, dict) and "field" in e]
    if closure and names:
        names = names[1:]
    return ".".join(str(n) for n in names) if names else None


def _b6_self_field_term(t, depth=0, closure=False):
    """Resolved MIR term -> field path below `self`, or None."""
    names = []
    # `a0 + run` with `let a0 = self.old_current;`: the range starts at the cursor field plus what was already reported
    t0 = t
    for _ in range(3):
        if isinstance(t0, tuple) and t0 and t0[0] in ("ref", "deref", "cast"):
            t0 = t0[1]
    if isinstance(t0, tuple) and t0 and t0[0] == "field" and str(t0[2]) == "0" and isinstance(t0[1], tuple) and t0[1] and t0[1][0] == "binop":
        t0 = t0[1]
    if isinstance(t0, tuple) and t0 and t0[0] == "binop" and str(t0[1]).startswith("Add") and depth < 6:
        for side in (t0[2], t0[3]):
            r_ = _b6_self_field_term(side, depth + 1, closure)
            if r_:
                return r_
        return None
    while isinstance(t, tuple) and t and depth < 12:
        depth += 1
        if t[0] == "field":
            names.append(str(t[2]))
            t = t[1]
        elif t[0] in ("deref", "ref"):
            t = t[1]
        elif t[0] == "local":
            if closure and names:
                names = names[:-1]          # the environment slot of the captured `self`
            return ".".join(reversed(names)) if names and (len(t) > 2 and t[2] == 1) else None
        else:
            return None
    return None


def _b6_error_blocks(m):
    """Blocks of the `?` error arm (they call FromResidual::from_residual): paths through them are not 'normal'."""
    out = set()
    for bb, t in m.calls():
        if (m.callee(t) or {}).get("path", "").endswith("FromResidual::from_residual"):
            out.add(bb)
    return out


def _b6_avoidable(m, points, targets):
    """Can a normal (non-error, non-cleanup) path reach one of `targets` from the entry without visiting `points`?"""
    stop = set(points) | _b6_error_blocks(m)
    seen = set()
    stack = [0]
    while stack:
        b = stack.pop()
        if b in seen or b in stop or m.blocks[b]["cleanup"]:
            continue
        seen.add(b)
        if b in targets:
            return True
        stack.extend(m.succs(b))
    return False


def _b6_summary(prog, fn, depth=0, memo=None):
    """What a `self` method of the Patience hook contributes: the gap-diff call sites, the cursor fields read for the
    gap ranges, and the self-field stores, each as (block, after_gap) points of this function."""
    memo = {} if memo is None else memo
    if fn.path in memo:
        return memo[fn.path]
    memo[fn.path] = None
    m = fn.mir
    gaps = []          # (block, cursor paths or None, line)
    stores = {}        # path -> [(block, internally_after_gap)]
    for bb, t in m.calls():
        c = m.callee(t) or {}
        path = c.get("path", "")
        if path.endswith("myers::diff_deadline"):
            curs = []
            for ai in (2, 4):
                term = m.expand(m.resolve_operand(t["args"][ai]), depth=3) if ai < len(t["args"]) else None
                start = None
                if isinstance(term, tuple) and term and term[0] == "aggregate":
                    start = term[2].get("start")
                curs.append(_b6_self_field_term(start, closure=(fn.kind == "Closure")))
            gaps.append((bb, curs, t["line"]))
            continue
        g = prog.fn(path)
        if g is None or g.mir is None or depth >= 3 or not g.hir or not g.hir.get("params"):
            continue
        if (g.hir["params"][0]["pat"].get("name") != "self") or not fn.impl or not g.impl or \
                ty_head(g.impl.get("self_ty")) != ty_head(fn.impl.get("self_ty")):
            continue
        sub = _b6_summary(prog, g, depth + 1, memo)
        if not sub:
            continue
        gm = g.mir
        rets = set(gm.returns())
        sub_gaps = [x for x in sub["gaps"]]
        if sub_gaps and not _b6_avoidable(gm, [x[0] for x in sub_gaps], rets):
            for x in sub_gaps[:1]:
                gaps.append((bb, x[1], t["line"]))
        elif sub_gaps:
            gaps.append((bb, None, t["line"]))      # a conditional gap diff inside a helper: reported by the caller
        for pth, pts in sub["stores"].items():
            blocks = [b for b, _ in pts]
            if _b6_avoidable(gm, blocks, rets):
                continue                           # not stored on every normal path of the helper
            after = bool(sub_gaps) and all(any(gm.dominates(gb, b) and (b != gb or ag) for gb, _, _ in sub_gaps) for b, ag in pts)
            stores.setdefault(pth, []).append((bb, after))
    for i, blk in enumerate(m.blocks):
        for s_ in blk["stmts"]:
            if s_["k"] == "assign" and s_["p"]["l"] == 1:
                pth = _b6_field_path(s_["p"]["proj"], closure=(fn.kind == "Closure"))
                if pth:
                    stores.setdefault(pth, []).append((i, False))
            elif s_["k"] == "assign" and fn.kind == "Closure" and s_["p"]["proj"] and m.local_name(s_["p"]["l"]) is None:
                # in a closure the captured `self` is first copied out of the environment into a temporary pointer
                pth = _b6_self_field_term(m.resolve_place(s_["p"]), closure=True)
                if pth:
                    stores.setdefault(pth, []).append((i, False))
    memo[fn.path] = {"gaps": gaps, "stores": stores}
    return memo[fn.path]


def rule_B6(prog):
    r = RuleResult("B6", "Patience::equal handles every anchor completely: in its anchor loop every iteration that does not "
                         "leave through an error passes through the gap diff (the inner myers call on the NoFinishHook, possibly "
                         "inside a helper method) and then stores both cursors (the self fields the gap ranges start at); no "
                         "`continue`/early path skips them")
    pr = proto(prog)
    for imp in pr.impls:
        if ty_head(imp["self_ty"]) != "algorithms::patience::Patience":
            continue
        fn = prog.fn(imp["methods"].get("equal", ""))
        if fn is None:
            r.find(imp["raw"]["path"], "no-equal", "Patience does not override equal")
            continue
        m = fn.mir
        loops = m.loops()
        summ = _b6_summary(prog, fn)
        gap = summ["gaps"]
        r.instances += 1
        if not gap and not loops:
            # the anchor loop written as `(0..len).try_for_each(|offset| { ..gap diff..; ..store cursors..; Ok(()) })`
            done = False
            for bb_, t_ in m.calls():
                c_ = m.callee(t_) or {}
                if c_.get("trait") == "std::iter::Iterator" and c_.get("method") in ("try_for_each", "for_each", "try_fold"):
                    cfs = [prog.fn(a.get("path", "")) for a in c_.get("args", []) if isinstance(a, dict) and a.get("k") == "closure"]
                    cfs = [x for x in cfs if x is not None and x.mir]
                    if len(cfs) != 1:
                        continue
                    cf = cfs[0]
                    cs = _b6_summary(prog, cf)
                    if not cs or len(cs["gaps"]) != 1:
                        continue
                    done = True
                    cm = cf.mir
                    gb, cursors, gline = cs["gaps"][0]
                    rets = set(cm.returns())
                    problems = []
                    if not cursors or None in cursors or len(set(cursors)) != 2:
                        problems.append("gap ranges do not start at two self fields (%s)" % (cursors,))
                    else:
                        if _b6_avoidable(cm, [gb], rets):
                            problems.append("a normal path through the closure skips the gap diff")
                        for pth in cursors:
                            after = [b for b, ag in cs["stores"].get(pth, []) if cm.dominates(gb, b) and (b != gb or ag)]
                            if not after or _b6_avoidable(cm, after, rets):
                                problems.append("cursor %s is not stored after the gap diff on every normal path" % pth)
                    r.ob(not problems, "Patience::equal: anchor loop as `%s` closure: %s" % (c_.get("method"), problems or "gap diff, then both cursors stored, on every normal path"))
                    if problems:
                        r.find(fn.path, "anchor-skipped", "Patience::equal (anchor loop as a `%s` closure): %s" % (c_.get("method"), "; ".join(problems)),
                               file=fn.file, line=gline)
            if done:
                continue
        if len(gap) != 1 or not loops:
            r.ob(False, "Patience::equal: %d gap-diff calls, %d loops" % (len(gap), len(loops)))
            r.find(fn.path, "gap-shape", "Patience::equal must contain exactly one inner myers::diff_deadline call (directly or in "
                   "a helper method of the hook) inside its anchor loop (found %d calls, %d loops)" % (len(gap), len(loops)),
                   file=fn.file, line=fn.line)
            continue
        gb, cursors, gline = gap[0]
        outer = [(h, body) for h, body in loops if gb in body]
        outer.sort(key=lambda x: -len(x[1]))
        if not outer:
            r.ob(False, "gap diff is not inside a loop")
            r.find(fn.path, "gap-outside-loop", "the gap diff of Patience::equal is not inside the anchor loop", file=fn.file, line=gline)
            continue
        if not cursors or None in cursors or len(set(cursors)) != 2:
            r.ob(False, "gap ranges do not start at two self fields: %s" % (cursors,))
            r.find(fn.path, "gap-cursors", "the gap diff's old and new ranges must start at the hook's two cursor fields (found %s; a "
                   "conditional gap diff inside a helper is not accepted)" % (cursors,), file=fn.file, line=gline)
            continue
        h, body = outer[0]
        backs = [(a, b) for (a, b) in m.back_edges() if b == h]
        bad = [a for (a, b) in backs if not m.dominates(gb, a)]
        # cursor stores after the gap diff: in a later block, or inside the helper that contains the gap diff, after it
        stores = {}
        for pth in cursors:
            for b, after in summ["stores"].get(pth, []):
                if b in body and m.dominates(gb, b) and (b != gb or after):
                    stores.setdefault(pth, []).append(b)
        ok = not bad and set(stores) == set(cursors) and all(
            all(any(m.dominates(sb, a) for sb in blocks) for (a, b) in backs) for blocks in stores.values())
        r.ob(ok, "Patience::equal: %d back edge(s) of the anchor loop, %d not dominated by the gap diff; cursors %s stored after it: %s" % (
            len(backs), len(bad), sorted(cursors), sorted(stores)))
        if not ok:
            r.find(fn.path, "anchor-skipped", "Patience::equal: some iteration of the anchor loop reaches the next anchor without the "
                   "gap diff and the cursor updates (back edges not dominated by the gap diff: %d; cursors %s; stored after it on "
                   "every iteration: %s)" % (len(bad), sorted(cursors), sorted(stores)), file=fn.file, line=gline)
    return r


def rule_B7(prog):
    r = RuleResult("B7", "Patience always lines up its anchors: inside patience::diff_deadline every call of the inner "
                         "myers::diff_deadline drives the Patience hook (possibly wrapped), never the caller's hook directly, "
                         "so no input bypasses the unique-item anchoring")
    for fn in prog.find("algorithms::patience::diff_deadline"):
        m = fn.mir
        calls = [(bb, t) for bb, t in m.calls() if (m.callee(t) or {}).get("path", "").endswith("myers::diff_deadline")]
        r.instances += 1
        bad = []
        for bb, t in calls:
            a0 = t["args"][0]
            ty = ""
            if a0.get("k") in ("copy", "move"):
                ty = m.local_ty_str(a0["p"]["l"]) or ""
            gargs = (m.callee(t) or {}).get("path_args", "") or ""
            if "patience::Patience<" not in ty and "patience::Patience<" not in gargs:
                bad.append((t["line"], ty))
        ok = bool(calls) and not bad
        r.ob(ok, "patience::diff_deadline: %d inner myers call(s), %d on a non-Patience hook" % (len(calls), len(bad)))
        if not ok:
            r.find(fn.path, "bypass", "patience::diff_deadline runs myers::diff_deadline directly on the caller's hook (%s): on "
                   "that path the unique items are not used as anchors" % (
                       ", ".join("line %d, hook type %s" % b for b in bad) or "no inner call found"),
                   file=fn.file, line=bad[0][0] if bad else fn.line)
    return r


# ------------------------------------------------------------------ B8: a buffered op taken out of an adapter is not discarded
def rule_B8(prog):
    r = RuleResult("B8", "what an adapter has buffered is either kept or emitted: a value taken out of a buffer field of a hook "
                         "adapter (`self.del.take()`, `mem::take(&mut self.x)`) is not handed to a combinator that can silently "
                         "discard it (`filter`, `take_if`, `and`, `xor`, `zip`, `is_some`/`is_none` ..): a pending deletion that "
                         "is dropped is missing from the script")
    LOSSY = ("filter", "take_if", "and", "xor", "zip", "is_some", "is_none", "is_some_and", "is_none_or")
    pr = proto(prog)
    adapters = {ty_head(imp["self_ty"]) for imp in pr.impls}
    for fn in prog.user_fns():
        if not fn.mir or fn.kind == "Closure" or not fn.impl or ty_head(fn.impl.get("self_ty")) not in adapters:
            continue
        m = fn.mir
        takes = {}       # dest local -> field path
        for bb, t in m.calls():
            c = m.callee(t) or {}
            p_ = c.get("path", "")
            if p_ in ("std::option::Option::<T>::take", "std::mem::take", "std::mem::replace") and t["args"] and not t["dest"]["proj"]:
                fld = _b6_self_field_term(m.resolve_operand(t["args"][0]))
                if fld:
                    takes[t["dest"]["l"]] = fld
        if not takes:
            continue

        def source(term, depth=0):
            """the buffer field a value was taken from, following moves and value-preserving Option adapters"""
            from .guard import strip
            term = strip(term)
            if not isinstance(term, tuple) or depth > 8:
                return None
            if term[0] == "call":
                p2 = term[1]
                if p2 in ("std::option::Option::<T>::take", "std::mem::take", "std::mem::replace"):
                    return _b6_self_field_term(term[2][0]) if term[2] else None
                if p2.startswith("std::option::Option::<T>::") and p2.rsplit("::", 1)[-1] in ("map", "or", "or_else", "as_ref", "as_mut", "copied", "cloned", "inspect"):
                    return source(term[2][0], depth + 1) if term[2] else None
                return None
            if term[0] == "local" and isinstance(term[2], int) and term[2] > m.arg_count:
                e = m.expand(term, depth=1)
                return source(e, depth + 1) if e != term else None
            return None

        for bb, t in m.calls():
            c = m.callee(t) or {}
            p_ = c.get("path", "")
            if not p_.startswith("std::option::Option::<T>::") or p_.rsplit("::", 1)[-1] not in LOSSY or not t["args"]:
                continue
            src = source(m.resolve_operand(t["args"][0]))
            if src is None:
                continue
            r.instances += 1
            r.ob(False, "%s: `%s` may discard what was taken out of self.%s" % (fn.path, t.get("src", p_)[:60], src))
            r.find(fn.path, "buffer-dropped:%s:%s" % (src, p_.rsplit("::", 1)[-1]),
                   "`%s`: the value taken out of the buffer `self.%s` goes through `%s`, which can discard it: a buffered op that is "
                   "neither kept nor emitted is missing from the script" % (t.get("src", p_)[:80], src, p_.rsplit("::", 1)[-1]),
                   file=fn.file, line=t["line"])
    return r
