"""Engine D: call-graph effect rules (byte-exact writer path, hash-order containment,
nondeterminism sources, items-are-only-compared-and-hashed)."""
import re
from .core import RuleResult
from .callgraph import CallGraph, peel, ty_head
from .facts import term_str, targs

_cg_cache = {}


def cg(prog):
    k = id(prog)
    if k not in _cg_cache:
        _cg_cache[k] = CallGraph(prog)
    return _cg_cache[k]


# ---------------------------------------------------------------- D1
LOSSY_SINKS = (
    "text::abstraction::DiffableStr::to_string_lossy",
    "std::string::String::from_utf8_lossy",
    "alloc::string::String::from_utf8_lossy",
    "text::abstraction::DiffableStr::as_str",
    "std::str::from_utf8",
    "core::str::from_utf8",
    "std::string::String::from_utf8",
)
LOSSY_FN_SUFFIX = ("::to_string_lossy", "::from_utf8_lossy", "::iter_strings_lossy")

BYTE_WRITER_ENTRIES = ("udiff::UnifiedDiff", "udiff::UnifiedDiffHunk")


def _is_lossy(node):
    return node in LOSSY_SINKS or node.endswith(LOSSY_FN_SUFFIX)


def _writer_entries(prog):
    out = []
    for fn in prog.user_fns():
        if fn.module == "udiff" and fn.name == "to_writer" and fn.impl and not fn.impl.get("trait"):
            out.append(fn)
    return out


def rule_D1(prog):
    r = RuleResult("D1", "no lossy decoding (to_string_lossy / from_utf8_lossy / as_str / a Display impl that "
                         "uses them) is reachable from the unified-diff byte writers; each line value is written "
                         "with write_all(as_bytes(value))")
    if "text" not in prog.features:
        r.notes.append("feature text disabled: udiff module absent")
        return r
    g = cg(prog)
    entries = _writer_entries(prog)
    r.instances = len(entries)
    for fn in entries:
        pred = g.reach(fn.path)
        bad = sorted(n for n in pred if _is_lossy(n))
        r.counters["reachable_nodes:" + fn.path] = len(pred)
        r.ob(not bad, "%s: %d nodes reachable, lossy sinks reachable: %s" % (fn.path, len(pred), bad or "none"))
        by_hop = {}
        for n in bad:
            path = g.path_to(pred, n)
            hop = path[1] if len(path) > 1 else n
            by_hop.setdefault(hop, []).append(path)
        for hop, paths in sorted(by_hop.items()):
            # one report per construct at the entry (first hop) that leads to lossy sinks
            site = g.sites.get((fn.path, hop), [(fn.line, "")])[0]
            shortest = min(paths, key=len)
            r.find(_short(fn.path), "reaches-lossy-via:" + _short(hop),
                   "byte writer %s reaches lossy decoding (%d sink(s)), e.g. %s" % (
                       _short(fn.path), len(paths), " -> ".join(_short(x) for x in shortest)),
                   file=fn.file, line=site[0], extra={"paths": paths, "site_src": site[1]})
    # positive obligation: hunk writer writes the value bytes with write_all
    for fn in entries:
        if "UnifiedDiffHunk" not in fn.path:
            continue
        m = fn.mir
        n_ok = 0
        for bb, t in m.calls():
            c = m.callee(t)
            if c and c["path"] == "std::io::Write::write_all":
                arg = m.resolve_operand(t["args"][1])
                s = term_str(arg)
                ok = "as_bytes(" in s and "value(" in s
                if ok:
                    n_ok += 1
                r.ob(ok, "%s: write_all(%s)" % (_short(fn.path), s))
                if not ok:
                    r.find(_short(fn.path), "write_all-arg",
                           "write_all argument is not as_bytes(change.value()): %s" % s, file=fn.file, line=t["line"])
        r.ob(n_ok >= 1, "%s: %d write_all(as_bytes(value)) site(s)" % (_short(fn.path), n_ok))
        if n_ok < 1:
            r.find(_short(fn.path), "no-write_all",
                   "hunk byte writer has no write_all(as_bytes(change.value())) call: line bytes are not written "
                   "unchanged", file=fn.file, line=fn.line)
    # the whole-diff writer must delegate each hunk to the hunk byte writer
    for fn in entries:
        if "UnifiedDiffHunk" in fn.path:
            continue
        hunk_writers = [e.path for e in entries if "UnifiedDiffHunk" in e.path]
        ok = any(h in g.edges.get(fn.path, ()) for h in hunk_writers)
        if not ok:
            # the hunk loop may be a closure (`hunks.try_for_each(|hunk| hunk.to_writer(&mut w))`)
            for cf in prog.closures_of.get(fn.path, []):
                if any(h in g.edges.get(cf.path, ()) for h in hunk_writers):
                    ok = True
        r.ob(ok, "%s delegates hunks to UnifiedDiffHunk::to_writer: %s" % (_short(fn.path), ok))
        if not ok:
            r.find(_short(fn.path), "no-delegate",
                   "UnifiedDiff::to_writer does not call UnifiedDiffHunk::to_writer (hunks are rendered some other "
                   "way than the byte-exact writer)", file=fn.file, line=fn.line)
    # positive control on the same facts: Display for UnifiedDiff must reach the lossy sink
    ctl = [f for f in prog.user_fns() if f.module == "udiff" and f.name == "fmt" and f.impl and
           f.impl.get("trait") == "std::fmt::Display" and ty_head(f.impl["self_ty"]) == "udiff::UnifiedDiff"]
    for f in ctl:
        pred = g.reach(f.path)
        hit = any(_is_lossy(n) for n in pred)
        r.counters["control_display_reaches_lossy"] = int(hit)
        if not hit:
            r.notes.append("CONTROL-FAILED: Display for UnifiedDiff does not reach to_string_lossy")
    if not ctl:
        r.notes.append("CONTROL-FAILED: Display for UnifiedDiff not found")
    return r


def _short(p):
    p = re.sub(r"<'[a-z_]+(, '[a-z_]+)*(, )?", "<", p)
    p = re.sub(r"::<>", "", p)
    p = p.replace("<>", "")
    return p


# ---------------------------------------------------------------- D2
HASH_HEADS = ("std::collections::HashMap", "std::collections::HashSet")
HASH_ITER_HEADS = ("std::collections::hash_map::", "std::collections::hash_set::")
HASH_ITER_METHODS = {"iter", "iter_mut", "keys", "values", "values_mut", "into_keys", "into_values", "drain",
                     "extract_if", "retain", "difference", "symmetric_difference", "intersection", "union"}
ADAPTERS = {"map", "filter", "filter_map", "enumerate", "chain", "zip", "take", "skip", "peekable", "cloned",
            "copied", "flat_map", "flatten", "inspect", "take_while", "skip_while", "map_while", "scan", "step_by",
            "by_ref", "fuse", "rev", "into_iter"}
# adapters whose *result* depends on the order of the underlying iteration even if it is sorted later
ORDER_SENSITIVE = {"take", "skip", "take_while", "skip_while", "map_while", "scan", "step_by", "enumerate", "zip", "nth",
                   "last", "next", "position", "find", "find_map", "rev", "peekable", "chain", "fold", "reduce", "try_fold"}
REDUCERS = {"count", "sum", "product", "all", "any", "min", "max", "len", "is_empty"}
SORTS = re.compile(r"slice::<impl \[T\]>::sort(_unstable)?(_by|_by_key|_by_cached_key)?$")


def _is_hash_iter_site(c):
    p = c["path"]
    for h in HASH_HEADS:
        if p.startswith(h + "::") and p.rsplit("::", 1)[-1] in HASH_ITER_METHODS:
            return True
    if c.get("trait") == "std::iter::IntoIterator" and c.get("method") == "into_iter":
        head = ty_head(c.get("self_ty")) or ""
        if head in HASH_HEADS:
            return True
    return False


def _op_local(op):
    if op["k"] in ("copy", "move"):
        return op["p"]["l"]
    return None


def rule_D2(prog):
    r = RuleResult("D2", "every iteration over a HashMap/HashSet feeds an order-insensitive reducer or a Vec on "
                         "which a sort call dominates every other use (hash order never escapes)")
    for fn in prog.user_fns():
        if not fn.mir:
            continue
        m = fn.mir
        for bb, t in m.calls():
            c = m.callee(t)
            if not c or not _is_hash_iter_site(c):
                continue
            r.instances += 1
            ok, why = _d2_follow(fn, bb, t)
            r.ob(ok, "%s: %s at line %d: %s" % (fn.path, t.get("src", c["path"]), t["line"], why))
            if not ok:
                r.find(fn.path, "hash-iter:" + c["path"].rsplit("::", 1)[-1],
                       "hash-map iteration order escapes: %s" % why, file=fn.file, line=t["line"])
    return r


def _d2_follow(fn, bb, t):
    m = fn.mir
    tainted = {t["dest"]["l"]}
    seqs = {}      # local -> creation bb
    changed = True
    verdict = []
    consumed = False
    while changed:
        changed = False
        for i, b in enumerate(m.blocks):
            for s in b["stmts"]:
                if s["k"] != "assign":
                    continue
                rv = s["rv"]
                src = None
                if rv["k"] == "use":
                    src = _op_local(rv["op"])
                elif rv["k"] == "ref":
                    src = rv["p"]["l"]
                dst = s["p"]["l"]
                if src in tainted and dst not in tainted and not s["p"]["proj"]:
                    tainted.add(dst)
                    changed = True
                elif src in tainted and s["p"]["proj"]:
                    verdict.append("iterator stored into a place at line %d" % s["line"])
            tt = b["term"]
            if tt["k"] != "call":
                continue
            args = [_op_local(a) for a in tt["args"]]
            if not any(a in tainted for a in args):
                continue
            if i == bb:
                continue
            c = m.callee(tt)
            meth = c.get("method") if c else None
            is_iter = c and c.get("trait") in ("std::iter::Iterator", "std::iter::IntoIterator",
                                               "std::iter::DoubleEndedIterator", "std::iter::ExactSizeIterator")
            dst = tt["dest"]["l"]
            if is_iter and meth in ORDER_SENSITIVE:
                msg = "`%s` selects or numbers elements by their position in hash order (line %d): sorting afterwards cannot undo it" % (meth, tt["line"])
                if msg not in verdict:
                    verdict.append(msg)
                if dst not in tainted:
                    tainted.add(dst)
                    changed = True
            elif is_iter and meth in ADAPTERS:
                if dst not in tainted:
                    tainted.add(dst)
                    changed = True
            elif is_iter and meth in REDUCERS:
                consumed = True
            elif is_iter and meth == "collect":
                head = ty_head(targs(c)[1]) if len(targs(c)) > 1 else None
                if head in ("std::vec::Vec", "std::collections::VecDeque", "std::string::String") or head is None \
                        or head.startswith("["):
                    if dst not in seqs:
                        seqs[dst] = i
                        changed = True
                elif head in HASH_HEADS or head in ("std::collections::BTreeMap", "std::collections::BTreeSet"):
                    consumed = True
                else:
                    verdict.append("collected into %s at line %d" % (head, tt["line"]))
            else:
                verdict.append("hash-ordered iterator flows into %s at line %d" % (c["path"] if c else "?", tt["line"]))
    # sequences created in hash order must be sorted before any other use
    for seq, cbb in seqs.items():
        sort_bb, chain = _find_sort(m, seq)
        if sort_bb is None:
            verdict.append("Vec collected in hash order (%s) is never sorted" % (m.local_name(seq) or "_%d" % seq))
            continue
        for ub, line in _uses(m, seq):
            if ub == cbb or ub in chain:
                continue
            if not (m.dominates(sort_bb, ub) and ub != sort_bb):
                verdict.append("use of %s at line %d is not dominated by the sort" % (m.local_name(seq) or seq, line))
        consumed = True
    if verdict:
        return False, "; ".join(verdict)
    if not consumed and not seqs:
        return False, "iterator is created but its consumer was not recognised"
    return True, "sorted before use" if seqs else "order-insensitive consumer"


def _find_sort(m, seq):
    """Find `sort*` applied to (a reborrow chain of) local `seq`. Returns (bb of sort call, set of chain bbs)."""
    alias = {seq}
    chain = set()
    changed = True
    while changed:
        changed = False
        for i, b in enumerate(m.blocks):
            for s in b["stmts"]:
                if s["k"] == "assign" and not s["p"]["proj"]:
                    rv = s["rv"]
                    src = rv["p"]["l"] if rv["k"] == "ref" else (_op_local(rv["op"]) if rv["k"] == "use" else None)
                    if src in alias and s["p"]["l"] not in alias and m.local_name(s["p"]["l"]) is None:
                        alias.add(s["p"]["l"])
                        chain.add(i)
                        changed = True
            t = b["term"]
            if t["k"] == "call":
                c = m.callee(t)
                args = [_op_local(a) for a in t["args"]]
                if c and c["path"].endswith(("DerefMut::deref_mut", "Vec::<T, A>::as_mut_slice", "AsMut::as_mut")) and args and args[0] in alias:
                    if t["dest"]["l"] not in alias:
                        alias.add(t["dest"]["l"])
                        chain.add(i)
                        changed = True
    for i, b in enumerate(m.blocks):
        t = b["term"]
        if t["k"] == "call":
            c = m.callee(t)
            args = [_op_local(a) for a in t["args"]]
            if c and SORTS.search(c["path"]) and args and args[0] in alias:
                return i, chain | {i}
    return None, chain


def _uses(m, l):
    out = []
    for i, b in enumerate(m.blocks):
        if b["cleanup"]:
            continue
        for s in b["stmts"]:
            if s["k"] != "assign":
                continue
            rv = s["rv"]
            ls = []
            if rv["k"] == "use":
                ls.append(_op_local(rv["op"]))
            elif rv["k"] == "ref":
                ls.append(rv["p"]["l"])
            elif rv["k"] in ("binop",):
                ls += [_op_local(rv["l"]), _op_local(rv["r"])]
            elif rv["k"] == "aggregate":
                ls += [_op_local(o) for o in rv["ops"]]
            if l in ls:
                out.append((i, s["line"]))
        t = b["term"]
        if t["k"] == "call" and l in [_op_local(a) for a in t["args"]]:
            out.append((i, t["line"]))
    return out


# ---------------------------------------------------------------- D3
CLOCK = ("std::time::Instant::now", "web_time::Instant::now", "std::time::SystemTime::now")
BANNED_PREFIX = ("std::thread::", "std::env::", "rand::", "std::process::", "std::hash::RandomState::",
                 "std::collections::hash_map::RandomState::", "std::time::SystemTime::", "std::fs::", "std::net::",
                 "std::sync::atomic::", "std::hash::DefaultHasher::", "std::collections::hash_map::DefaultHasher::",
                 "std::ptr::addr", "core::ptr::addr")


def rule_D3(prog):
    r = RuleResult("D3", "the clock is read only inside deadline_support; no thread/env/random/process/fs source and "
                         "no pointer-to-integer cast anywhere in non-test code")
    n_calls = 0
    for fn in prog.user_fns():
        if not fn.mir:
            continue
        m = fn.mir
        for bb, t in m.calls():
            c = m.callee(t)
            if not c:
                continue
            n_calls += 1
            p = c["path"]
            if p in CLOCK or p.endswith("::Instant::now"):
                r.instances += 1
                ok = fn.module == "deadline_support"
                r.ob(ok, "%s calls %s (module %s)" % (fn.path, p, fn.module))
                if not ok:
                    r.find(fn.path, "clock:" + p, "clock read outside deadline_support: %s" % t.get("src", p),
                           file=fn.file, line=t["line"])
            elif p.startswith(BANNED_PREFIX):
                r.ob(False, "%s calls %s" % (fn.path, p))
                r.find(fn.path, "source:" + p, "nondeterminism source %s called" % p, file=fn.file, line=t["line"])
        for b in m.blocks:
            for s in b["stmts"]:
                if s["k"] == "assign" and s["rv"]["k"] == "cast" and not s.get("exp"):
                    ck = s["rv"]["ck"]
                    if "PointerExposeProvenance" in ck or "PointerExposeAddress" in ck:
                        r.ob(False, "%s pointer->int cast line %d" % (fn.path, s["line"]))
                        r.find(fn.path, "ptr2int", "pointer-to-integer cast (address-dependent value)", file=fn.file,
                               line=s["line"])
    r.counters["calls_scanned"] = n_calls
    r.obligations += 1
    r.discharged += 1 if not [f for f in r.findings if not f.detail.startswith("clock")] else 0
    r.samples.append("scanned %d call sites in %d functions for banned sources" % (n_calls, len(prog.user_fns())))
    return r


# ---------------------------------------------------------------- D4
CORE_MODULES = ("algorithms", "algorithms::myers", "algorithms::lcs", "algorithms::patience", "algorithms::utils",
                "algorithms::compact", "algorithms::replace", "algorithms::capture", "algorithms::hook", "common")
ITEM_ALLOWED_TRAIT_METHODS = {
    ("std::cmp::PartialEq", "eq"), ("std::cmp::PartialEq", "ne"), ("std::hash::Hash", "hash"),
    ("std::ops::Index", "index"), ("std::borrow::Borrow", "borrow"), ("std::convert::AsRef", "as_ref"),
    ("std::ops::Deref", "deref"),
}
ORDER_TRAITS = ("std::cmp::PartialOrd", "std::cmp::Ord")
INSPECT_TRAITS = ("std::fmt::Debug", "std::fmt::Display", "std::string::ToString")
ORDER_CONTAINERS = ("std::collections::BTreeMap", "std::collections::BTreeSet", "std::collections::BinaryHeap",
                    "std::collections::btree_map::", "std::collections::btree_set::", "std::collections::binary_heap::")
ORDER_FNS = re.compile(r"(slice::<impl \[T\]>::(sort|binary_search|is_sorted|select_nth)|std::cmp::(max|min)|"
                       r"core::cmp::(max|min)|Iterator::(max|min|cmp|partial_cmp|lt|le|gt|ge|is_sorted))")


def _item_params(fn):
    """Names of type parameters that denote *item* types in this function."""
    names = set()
    if fn.sig:
        for t in fn.sig["inputs"]:
            t = peel(t)
            if isinstance(t, dict) and t.get("k") == "slice" and t["t"].get("k") == "param":
                names.add(t["t"]["n"])
    if fn.impl and (ty_head(fn.impl["self_ty"]) or "").endswith("::Key"):
        names |= {"Old", "New"}
    return names


def _is_item(tyj, item_params):
    t = peel(tyj)
    if not isinstance(t, dict):
        return False
    if t.get("k") == "alias" and t.get("path") == "std::ops::Index::Output":
        return True
    if t.get("k") == "param" and t["n"] in item_params:
        return True
    return False


def _mentions_item(tyj, item_params, depth=0):
    if isinstance(tyj, dict):
        if _is_item(tyj, item_params):
            return True
        if tyj.get("k") == "closure":
            return False
        return any(_mentions_item(v, item_params, depth + 1) for k, v in tyj.items() if k in ("t", "ts", "args"))
    if isinstance(tyj, list):
        return any(_mentions_item(v, item_params, depth + 1) for v in tyj)
    return False


def _elem_is_item(tyj, item_params):
    """item, &item, (item, ..), Option<item>, [item]"""
    t = peel(tyj)
    if _is_item(t, item_params):
        return True
    if isinstance(t, dict):
        if t.get("k") == "tuple":
            return any(_elem_is_item(x, item_params) for x in t["ts"])
        if t.get("k") in ("slice", "array"):
            return _elem_is_item(t["t"], item_params)
        if t.get("k") == "adt" and t["path"] in ("std::option::Option", "std::cmp::Reverse", "std::vec::Vec"):
            return any(_elem_is_item(x, item_params) for x in t["args"])
    return False


def rule_D4(prog):
    r = RuleResult("D4", "in the diff core, values of the item types are touched only by ==/!=, Hash::hash and "
                         "indexing; no ordering, formatting or order-based container is instantiated at an item type")
    for fn in prog.user_fns():
        if not fn.mir:
            continue
        owner = fn
        if fn.kind == "Closure":
            owner = prog.fn(fn.raw.get("closure_of")) or fn
        if owner.module not in CORE_MODULES:
            continue
        if owner.impl and owner.impl.get("trait") in ("std::fmt::Debug",):
            continue
        if owner.name in ("get_diff_ratio", "group_diff_ops"):
            continue
        ip = _item_params(owner)
        m = fn.mir
        for bb, t in m.calls():
            c = m.callee(t)
            if not c:
                continue
            if not _mentions_item(c["args"], ip):
                continue
            r.instances += 1
            p = c["path"]
            bad = None
            if c.get("trait"):
                st = c.get("self_ty")
                if c["trait"] in ORDER_TRAITS and _elem_is_item(st, ip):
                    bad = "ordering comparison %s::%s on item type" % (c["trait"], c["method"])
                elif c["trait"] in INSPECT_TRAITS and _elem_is_item(st, ip):
                    bad = "formatting %s on item type" % c["trait"]
                elif _is_item(st, ip) and (c["trait"], c["method"]) not in ITEM_ALLOWED_TRAIT_METHODS:
                    bad = "trait method %s::%s applied to an item (only ==, != and hash are allowed)" % (c["trait"], c["method"])
            if bad is None and p.startswith(ORDER_CONTAINERS):
                # keyed/ordered by item?
                if any(_elem_is_item(a, ip) for a in targs(c)[:1]):
                    bad = "order-based container %s keyed by item type" % p
            if bad is None and ORDER_FNS.search(p) and any(_elem_is_item(a, ip) for a in c["args"]):
                bad = "order-based function %s instantiated at item type" % p
            if bad is None and p in ("core::fmt::rt::Argument::<'_>::new_debug", "core::fmt::rt::Argument::<'_>::new_display") \
                    and targs(c) and _elem_is_item(targs(c)[0], ip):
                bad = "formatting of an item value"
            r.ob(bad is None, "%s: %s%s" % (fn.path, c.get("path_args", p)[:120], "" if bad is None else "  <-- " + bad))
            if bad:
                r.find(fn.path, "item-op:" + p, bad + ": " + t.get("src", ""), file=fn.file, line=t["line"])
    return r
