"""Engine F: structural tables and sibling agreement (HIR + MIR pattern rules, no text matching)."""
import re
from .core import RuleResult
from .facts import term_str, targs, walk_hir, norm_path
from .callgraph import ty_head
from . import guard as G

DIFFOP = "types::DiffOp"
DIFFTAG = "types::DiffTag"
CHANGETAG = "types::ChangeTag"


# ---------------------------------------------------------------- HIR helpers
def unwrap(e):
    """Strip transparent wrappers."""
    while isinstance(e, dict) and e.get("k") in ("droptemps", "addrof", "cast") or (
            isinstance(e, dict) and e.get("k") == "unary" and e.get("op") == "Deref") or (
            isinstance(e, dict) and e.get("k") == "block" and not e["b"]["stmts"] and e["b"].get("expr")):
        if e["k"] == "block":
            e = e["b"]["expr"]
        else:
            e = e["x"]
    return e


def origin(e, depth=0):
    """Normalised provenance chain of an expression: 'old', 'self.algorithm', 'old.as_diffable_str().tokenize_lines()',
    'lit:true', 'Some(...)'."""
    e = unwrap(e)
    if not isinstance(e, dict) or depth > 12:
        return "?"
    k = e.get("k")
    if k == "path":
        r = e.get("res", {})
        if r.get("k") == "local":
            return r["name"]
        p = r.get("path", "?")
        if p.rsplit("::", 1)[-1] in ("Some", "None", "Ok", "Err"):
            return p.rsplit("::", 1)[-1]
        return p.rsplit("::", 2)[-2] + "::" + p.rsplit("::", 1)[-1] if "::" in p else p
    if k == "lit":
        return "lit:" + e.get("src", "")
    if k == "field":
        return origin(e["base"], depth + 1) + "." + e["name"]
    if k == "mcall":
        return "%s.%s(%s)" % (origin(e["recv"], depth + 1), e["name"], ",".join(origin(a, depth + 1) for a in e["args"]))
    if k == "call":
        f = unwrap(e["f"])
        name = origin(f, depth + 1)
        args = [origin(a, depth + 1) for a in e["args"]]
        if name in ("Cow::Owned", "Cow::Borrowed", "std::borrow::Cow::Owned", "std::borrow::Cow::Borrowed") and len(args) == 1:
            return args[0]
        return "%s(%s)" % (name, ",".join(args))
    if k == "index":
        return "%s[%s]" % (origin(e["base"], depth + 1), origin(e["idx"], depth + 1))
    if k == "struct" and e.get("adt") == "std::ops::Range":
        f = {x["name"]: x["e"] for x in e["fields"]}
        return "%s..%s" % (origin(f.get("start"), depth + 1), origin(f.get("end"), depth + 1))
    if k == "struct" and e.get("adt") == "std::ops::RangeFull":
        return ".."
    if k == "binary":
        return "(%s%s%s)" % (origin(e["l"], depth + 1), e["op"], origin(e["r"], depth + 1))
    if k == "unary":
        return "%s(%s)" % (e["op"], origin(e["x"], depth + 1))
    if k == "tup":
        return "(%s)" % ",".join(origin(x, depth + 1) for x in e["es"])
    if k == "closure":
        return "closure"
    return k or "?"


def find_nodes(node, pred, out=None, stop=None):
    out = [] if out is None else out
    if isinstance(node, dict):
        if "k" in node and pred(node):
            out.append(node)
        if stop is not None and "k" in node and stop(node):
            return out
        for k, v in node.items():
            if k in ("res", "gargs", "tyj"):
                continue
            find_nodes(v, pred, out, stop)
    elif isinstance(node, list):
        for v in node:
            find_nodes(v, pred, out, stop)
    return out


def variant_of_pat(p):
    """Variant name if the pattern matches a DiffOp / DiffTag / ChangeTag variant."""
    if not isinstance(p, dict):
        return None
    k = p.get("k")
    if k == "ref":
        return variant_of_pat(p["pat"])
    if k in ("struct", "tuplestruct"):
        path = (p.get("res") or {}).get("path", "")
        if path.startswith((DIFFOP + "::", DIFFTAG + "::", CHANGETAG + "::")):
            return path.rsplit("::", 1)[-1]
    if k == "expr":
        path = (p.get("res") or {}).get("path", "")
        if path.startswith((DIFFOP + "::", DIFFTAG + "::", CHANGETAG + "::")):
            return path.rsplit("::", 1)[-1]
    if k == "or":
        vs = [variant_of_pat(x) for x in p["pats"]]
        if all(vs):
            return "|".join(vs)
    return None


def op_matches(fn):
    """match expressions over DiffOp / DiffTag variants in a function: [(node, {variant: arm})]"""
    out = []
    for mnode in find_nodes(fn.hir["body"], lambda n: n["k"] == "match"):
        arms = {}
        for a in mnode["arms"]:
            v = variant_of_pat(a["pat"])
            if v:
                arms[v] = a
        if arms:
            out.append((mnode, arms))
    return out


def pat_bindings(p, out=None):
    out = {} if out is None else out
    if isinstance(p, dict):
        if p.get("k") == "struct":
            for f in p["fields"]:
                sub = f["pat"]
                if sub.get("k") == "bind":
                    out[sub["id"]] = f["name"]
                else:
                    pat_bindings(sub, out)
        else:
            for v in p.values():
                if isinstance(v, (dict, list)):
                    pat_bindings(v, out)
    elif isinstance(p, list):
        for v in p:
            pat_bindings(v, out)
    return out


def local_field(e, binds):
    """If e is a path to a pattern binding of a DiffOp field, return the field name."""
    e = unwrap(e)
    if isinstance(e, dict) and e.get("k") == "path":
        r = e.get("res", {})
        if r.get("k") == "local" and r["id"] in binds:
            return binds[r["id"]]
    return None


def linear(e, binds, sign=1, acc=None):
    """Linear form of a +/- chain over op fields: {field: coefficient}; None if anything else occurs."""
    acc = {} if acc is None else acc
    e = unwrap(e)
    if not isinstance(e, dict):
        return None
    f = local_field(e, binds)
    if f is not None:
        acc[f] = acc.get(f, 0) + sign
        return acc
    if e.get("k") == "binary" and e["op"] in ("+", "-"):
        if linear(e["l"], binds, sign, acc) is None:
            return None
        if linear(e["r"], binds, sign if e["op"] == "+" else -sign, acc) is None:
            return None
        return acc
    if e.get("k") == "lit" and re.match(r"^\d+$", e.get("src", "")):
        v = int(e["src"])
        if v:
            acc["#"] = acc.get("#", 0) + sign * v
        return acc
    return None


_CUR_PROG = [None]      # the program the running rule looks at (set by Program-aware rules; used to inline tiny helpers)


def _inline_call(e):
    """`span(a, l)` where `fn span(start, len) -> Range<usize> { start..start + len }` is a private one-expression
    helper: the helper's body with its parameters replaced by the arguments.  Anything else: e itself."""
    prog = _CUR_PROG[0]
    e0 = unwrap(e)
    if prog is None or not (isinstance(e0, dict) and e0.get("k") == "call"):
        return e
    f = unwrap(e0["f"])
    res = (f.get("res") or {}) if isinstance(f, dict) and f.get("k") == "path" else {}
    if not res.get("path") or res.get("dk", "") not in ("Fn", "AssocFn"):
        return e
    g = prog.fn(res["path"])
    if g is None:
        c = [x for x in prog.find(res["path"]) if x.hir]
        g = c[0] if len(c) == 1 else None
    if g is None or not g.hir or not g.hir.get("body") or len(g.hir["params"]) != len(e0["args"]):
        return e
    body = unwrap(g.hir["body"])
    for _ in range(3):
        if isinstance(body, dict) and body.get("k") == "block" and not body["b"]["stmts"] and body["b"].get("expr"):
            body = unwrap(body["b"]["expr"])
    if not (isinstance(body, dict) and body.get("k") == "struct" and body.get("adt") == "std::ops::Range"):
        return e
    amap = {}
    for pp, a in zip(g.hir["params"], e0["args"]):
        if pp["pat"].get("k") != "bind":
            return e
        amap[pp["pat"]["id"]] = a

    def sub(n):
        if isinstance(n, dict):
            if n.get("k") == "path" and n.get("res", {}).get("k") == "local" and n["res"]["id"] in amap:
                return amap[n["res"]["id"]]
            return {k: sub(v) for k, v in n.items()}
        if isinstance(n, list):
            return [sub(x) for x in n]
        return n
    return sub(body)


def range_desc(e, binds, lets=None):
    """(start field, len field or None) of a range literal `a..a+l` / `a..a` built from op fields.
    `lets` ({local id: initialiser}) lets a range that was first bound to a local be looked through."""
    e = unwrap(_inline_call(e))
    hops = 0
    while lets and isinstance(e, dict) and e.get("k") == "path" and e.get("res", {}).get("k") == "local" \
            and e["res"]["id"] in lets and hops < 5:
        e = unwrap(lets[e["res"]["id"]])
        hops += 1
    if not (isinstance(e, dict) and e.get("k") == "struct" and e.get("adt") == "std::ops::Range"):
        return None
    f = {x["name"]: x["e"] for x in e["fields"]}
    s = local_field(f.get("start"), binds)
    end = unwrap(f.get("end"))
    if s is None:
        return None
    lf = linear(end, binds)
    if lf is not None:
        lf = {k: v for k, v in lf.items() if v != 0}
        if lf == {s: 1}:
            return (s, None)
        if len(lf) == 2 and lf.get(s) == 1:
            other = [k for k in lf if k != s][0]
            if lf[other] == 1 and other != "#":
                return (s, other)
    return ("?", "?")


OP_FIELDS = {
    "Equal": {"old": ("old_index", "len"), "new": ("new_index", "len")},
    "Delete": {"old": ("old_index", "old_len"), "new": ("new_index", None)},
    "Insert": {"old": ("old_index", None), "new": ("new_index", "new_len")},
    "Replace": {"old": ("old_index", "old_len"), "new": ("new_index", "new_len")},
}
HOOK_ARGS = {
    "Equal": ("equal", ["old_index", "new_index", "len"]),
    "Delete": ("delete", ["old_index", "old_len", "new_index"]),
    "Insert": ("insert", ["old_index", "new_index", "new_len"]),
    "Replace": ("replace", ["old_index", "old_len", "new_index", "new_len"]),
}
SLICES = {
    "Equal": [("Equal", "old", "old_index", "len")],
    "Delete": [("Delete", "old", "old_index", "old_len")],
    "Insert": [("Insert", "new", "new_index", "new_len")],
    "Replace": [("Delete", "old", "old_index", "old_len"), ("Insert", "new", "new_index", "new_len")],
}
CHANGES = {
    "Equal": [("Equal", True, True, "old")],
    "Delete": [("Delete", True, False, "old")],
    "Insert": [("Insert", False, True, "new")],
    "Replace": [("Delete", True, False, "old"), ("Insert", False, True, "new")],
}


def tag_of(e):
    e = unwrap(e)
    if isinstance(e, dict) and e.get("k") == "path":
        p = (e.get("res") or {}).get("path", "")
        if p.startswith((CHANGETAG + "::", DIFFTAG + "::")):
            return p.rsplit("::", 1)[-1]
    return None


# ---------------------------------------------------------------- F1
def rule_F1(prog):
    r = RuleResult("F1", "capture_diff_deadline drives the algorithm with the hook Compact<Old, New, Replace<Capture>> "
                         "(compaction outside, replace inside, capture innermost) and returns "
                         "into_inner().into_inner().into_ops() of that same hook")
    fns = prog.find("common::capture_diff_deadline")
    r.instances = len(fns)
    if not fns:
        r.find("common::capture_diff_deadline", "missing", "capture_diff_deadline not found")
        return r
    fn = fns[0]
    m = fn.mir
    ok_ty = False
    seen_ty = None
    hook_local = None
    for bb, t in m.calls():
        c = m.callee(t)
        if c and c["path"] == "algorithms::diff_deadline":
            a = targs(c)
            d = a[2] if len(a) > 2 else None
            seen_ty = d
            try:
                ok_ty = d["path"] == "algorithms::compact::Compact" and targs(d)[-1]["path"] == "algorithms::replace::Replace" \
                    and targs(targs(d)[-1])[0]["path"] == "algorithms::capture::Capture"
            except Exception:
                ok_ty = False
            ht = m.resolve_operand(t["args"][1])
            while ht and ht[0] in ("ref", "deref"):
                ht = ht[1]
            hook_local = ht
    from .proto import ty_s
    r.ob(ok_ty, "capture_diff_deadline: hook type passed to diff_deadline = %s" % (ty_s(seen_ty) if seen_ty else "?"))
    if not ok_ty:
        r.find(fn.path, "pipeline-type", "the capture pipeline is %s, required Compact<.., Replace<Capture>>" % (
            ty_s(seen_ty) if seen_ty else "not found"), file=fn.file, line=fn.line)
    # return value
    chain = None
    for bb, t in m.calls():
        if t["dest"]["l"] == 0 and not t["dest"]["proj"]:
            c = m.callee(t)
            chain = ("call", c["path"], [m.resolve_operand(a) for a in t["args"]])
    def peel(term, depth=0):
        """look through locals that merely name an intermediate `into_inner()` result"""
        term = G.strip(term)
        if isinstance(term, tuple) and term and term[0] == "call":
            return ("call", term[1], [peel(a, depth + 1) for a in term[2]])
        if isinstance(term, tuple) and term and term[0] == "local" and isinstance(term[2], int) and term[2] > m.arg_count and depth < 8:
            sd = m.single_def(term[2])
            if sd is not None and sd[2] == "call" and (m.callee(sd[3]) or {}).get("path", "").endswith(("::into_inner", "::into_ops")):
                cal = m.callee(sd[3])
                return ("call", cal["path"], [peel(m.resolve_operand(a), depth + 1) for a in sd[3]["args"]])
        return term
    if chain:
        chain = peel(chain)
    s = term_str(chain) if chain else "?"
    ok = bool(chain) and re.match(r"^into_ops\(into_inner\(into_inner\((\w+)\)\)\)$", s) is not None
    if ok and hook_local and hook_local[0] == "local":
        ok = re.match(r"^into_ops\(into_inner\(into_inner\((\w+)\)\)\)$", s).group(1) == str(hook_local[1])
    r.ob(ok, "capture_diff_deadline returns %s (hook variable: %s)" % (s, term_str(hook_local) if hook_local else "?"))
    if not ok:
        r.find(fn.path, "pipeline-result", "capture_diff_deadline returns %s; required <hook>.into_inner().into_inner()."
               "into_ops() of the hook that was driven" % s, file=fn.file, line=fn.line)
    return r


# ---------------------------------------------------------------- F2
TOKENIZERS = {"diff_lines": ("tokenize_lines", "true"), "diff_words": ("tokenize_words", "false"),
              "diff_chars": ("tokenize_chars", "false"), "diff_unicode_words": ("tokenize_unicode_words", "false"),
              "diff_graphemes": ("tokenize_graphemes", "false")}


def _local_callees(prog, fn, depth=2, seen=None):
    """Local functions (with HIR) called from `fn`, transitively up to `depth` levels."""
    seen = set() if seen is None else seen
    out = []
    if depth <= 0 or not fn.hir:
        return out
    for n in find_nodes(fn.hir["body"], lambda n: n["k"] in ("call", "mcall")):
        if n["k"] == "mcall":
            path = n.get("method") or ""
        else:
            f = unwrap(n["f"])
            path = (f.get("res") or {}).get("path", "") if isinstance(f, dict) and f.get("k") == "path" else ""
        g = prog.fn(path)
        if g is None:
            cands = prog.find(path) if path else []
            g = cands[0] if len(cands) == 1 else None
        if g is None or not g.hir or g.path in seen or g.path == fn.path:
            continue
        seen.add(g.path)
        out.append(g)
        out += _local_callees(prog, g, depth - 1, seen)
    return out


def _through_helper(prog, fn, pred):
    """`fn` delegates to one private helper that makes the one call matching `pred`: the arguments of that inner call,
    as origins, with the helper's parameters replaced by what `fn` passes for them.  None if the shape is different."""
    outer = []
    for n in find_nodes(fn.hir["body"], lambda n: n["k"] in ("call", "mcall")):
        if n["k"] == "mcall":
            path = n.get("method") or ""
            args = [n["recv"]] + list(n["args"])
        else:
            f = unwrap(n["f"])
            path = (f.get("res") or {}).get("path", "") if isinstance(f, dict) and f.get("k") == "path" else ""
            args = list(n["args"])
        g = prog.fn(path)
        if g is None and path:
            cands = [c for c in prog.find(path) if c.hir]
            g = cands[0] if len(cands) == 1 else None
        if g is None or not g.hir or g.path == fn.path:
            continue
        inner = find_nodes(g.hir["body"], pred)
        if len(inner) == 1:
            outer.append((g, args, inner[0]))
    if len(outer) != 1:
        return None
    g, args, inner = outer[0]
    lets_f = _lets(fn)
    amap = {}
    for pp, a in zip(g.hir["params"], args):
        nm = pp["pat"].get("name")
        if nm and nm != "self":
            amap[nm] = origin_deep(a, lets_f)
    lets_g = _lets(g)
    out = []
    for x in inner["args"]:
        o = origin_deep(x, lets_g)
        if amap:
            o = re.sub(r"(?<![\w.])(%s)\b" % "|".join(re.escape(k) for k in amap), lambda mm: amap[mm.group(1)], o)
        out.append(o)
    return out


def rule_F2(prog):
    r = RuleResult("F2", "text wiring: every TextDiffConfig::diff_X tokenizes old and new with the same tokenize_X (old "
                         "first), passes newline_terminated=true only for lines; TextDiffConfig::diff stores the token "
                         "vectors it diffed, self.algorithm and self.newline_terminated.unwrap_or(flag), and runs both "
                         "size branches with self.algorithm; TextDiff::from_X and utils::diff_X call the matching diff_X "
                         "with (old, new) and build the remapper from (diff, old, new)")
    if "text" not in prog.features:
        return r
    # private field names of TextDiffConfig are found by type (a maintainer may rename them)
    cfg_adt = prog.adts.get("text::TextDiffConfig")
    alg_field, nt_field = "algorithm", "newline_terminated"
    if cfg_adt:
        for f_ in cfg_adt["variants"][0]["fields"]:
            ts = (f_.get("ty_str") or "").replace(" ", "")
            if ts.endswith("Algorithm"):
                alg_field = f_["name"]
            elif ts == "std::option::Option<bool>":
                nt_field = f_["name"]
    for name, (tok, flag) in sorted(TOKENIZERS.items()):
        fns = prog.find("text::TextDiffConfig::" + name)
        if not fns:
            if "unicode" in name or "graphemes" in name:
                continue
            r.find("text::TextDiffConfig::" + name, "missing", "TextDiffConfig::%s not found" % name)
            continue
        fn = fns[0]
        r.instances += 1
        calls = find_nodes(fn.hir["body"], lambda n: n["k"] == "mcall" and n["name"] == "diff" and n.get("local"))
        ok = False
        got = "no call to self.diff"
        a = None
        if len(calls) == 1:
            lets = _lets(fn)
            a = [origin_deep(x, lets) for x in calls[0]["args"]]
        elif not calls:
            a = _through_helper(prog, fn, lambda n: n["k"] == "mcall" and n["name"] == "diff" and n.get("local"))
            if a is not None:
                # `tokenize(x)` with tokenize = DiffableStr::tokenize_lines  ==  x.tokenize_lines()
                a = [re.sub(r"^(?:\w+::)*(tokenize_\w+)\((.*)\)$", r"\2.\1()", x) for x in a]
        if a is not None:
            got = "self.diff(%s)" % ", ".join(a)
            pat = r"^%s(\.as_diffable_str\(\))?\.%s\(\)$"
            ok = len(a) == 3 and re.match(pat % ("old", tok), a[0]) is not None and \
                re.match(pat % ("new", tok), a[1]) is not None and a[2] == "lit:" + flag
        r.ob(ok, "TextDiffConfig::%s: %s" % (name, got))
        if not ok:
            r.find(fn.path, "wiring", "TextDiffConfig::%s must be self.diff(old.%s(), new.%s(), %s); found %s" % (
                name, tok, tok, flag, got), file=fn.file, line=fn.line)
    # builder setters store what they are given
    for name, field, want in (("algorithm", alg_field, "alg"), ("newline_terminated", nt_field, "Some(yes)")):
        fns = prog.find("text::TextDiffConfig::" + name)
        if not fns:
            continue
        fn = fns[0]
        r.instances += 1
        asg = find_nodes(fn.hir["body"], lambda n: n["k"] == "assign" and origin(n["l"]) == "self." + field)
        got = [origin(a["r"]) for a in asg]
        pname = fn.hir["params"][1]["pat"].get("name") if len(fn.hir["params"]) > 1 else "?"
        want_s = want.replace("alg", pname).replace("yes", pname)
        ok = got == [want_s]
        r.ob(ok, "TextDiffConfig::%s stores self.%s = %s" % (name, field, got))
        if not ok:
            r.find(fn.path, "setter", "TextDiffConfig::%s must store `self.%s = %s`; found %s" % (name, field, want_s, got or "no store"),
                   file=fn.file, line=fn.line)
    fns = prog.find("text::TextDiffConfig::diff_slices")
    if fns:
        fn = fns[0]
        r.instances += 1
        calls = find_nodes(fn.hir["body"], lambda n: n["k"] == "mcall" and n["name"] == "diff" and n.get("local"))
        a = [origin(x) for x in calls[0]["args"]] if len(calls) == 1 else []
        ok = a == ["old", "new", "lit:false"]
        r.ob(ok, "TextDiffConfig::diff_slices: self.diff(%s)" % ", ".join(a))
        if not ok:
            r.find(fn.path, "wiring", "TextDiffConfig::diff_slices must be self.diff(old, new, false); found %s" % a,
                   file=fn.file, line=fn.line)
    fns = prog.find("text::TextDiffConfig::diff")
    if fns:
        fn = fns[0]
        r.instances += 1
        lits = find_nodes(fn.hir["body"], lambda n: n["k"] == "struct" and n.get("adt") == "text::TextDiff")
        problems = []
        if len(lits) != 1:
            problems.append("%d TextDiff literals" % len(lits))
        else:
            lets = _lets(fn)
            f = {x["name"]: origin(x["e"]) for x in lits[0]["fields"]}
            fd = {x["name"]: origin_deep(x["e"], lets) for x in lits[0]["fields"]}
            want = {"old": "old", "new": "new", "ops": "ops", "algorithm": "self." + alg_field,
                    "newline_terminated": "self.%s.unwrap_or(newline_terminated)" % nt_field}
            for k, v in want.items():
                if f.get(k) != v and (k in ("old", "new", "ops") or fd.get(k) != v):
                    problems.append("field %s = %s (required %s)" % (k, f.get(k), v))
        # the capture calls may sit in a private helper method of the config (`self.capture_ops(&old, &new)`)
        caps = []
        for body in [fn.hir["body"]] + [g.hir["body"] for g in _local_callees(prog, fn)]:
            caps += find_nodes(body, lambda n: n["k"] == "call" and origin(n["f"]).endswith("capture_diff_deadline"))
        if len(caps) < 1:
            problems.append("%d capture_diff_deadline calls" % len(caps))
        # the integer ids of IdentifyDistinct must not wrap for realistic inputs: at least 32 bits
        for body in [fn.hir["body"]] + [g.hir["body"] for g in _local_callees(prog, fn)]:
            for c in find_nodes(body, lambda n: n["k"] == "call" and "IdentifyDistinct" in ((unwrap(n["f"]).get("res") or {}).get("path", "")) and
                                (unwrap(n["f"]).get("res") or {}).get("path", "").endswith("::new")):
                ga = (unwrap(c["f"]).get("gargs") or [])
                ints = [g_.get("n") for g_ in ga if isinstance(g_, dict) and g_.get("k") == "prim"]
                if not ints and ga and isinstance(ga[0], dict) and ga[0].get("k") == "param":
                    # the id type is a type parameter of a helper: every explicit instantiation of that helper counts
                    for body2 in [fn.hir["body"]] + [g2.hir["body"] for g2 in _local_callees(prog, fn)]:
                        for c2 in find_nodes(body2, lambda n: n["k"] in ("call", "mcall")):
                            g2, _a = _call_target(prog, c2)
                            if g2 is None or not g2.hir or c not in find_nodes(g2.hir["body"], lambda n: n is c):
                                continue
                            ga2 = (unwrap(c2["f"]).get("gargs") if c2["k"] == "call" else c2.get("gargs")) or []
                            ints += [g_.get("n") for g_ in ga2 if isinstance(g_, dict) and g_.get("k") == "prim" and
                                     str(g_.get("n")) in ("u8", "u16", "i8", "i16", "i32")]
                if ints and ints[0] not in ("u32", "u64", "usize", "u128", "i64", "i128"):
                    problems.append("IdentifyDistinct::<%s>: ids wrap around after %s distinct tokens" % (
                        ints[0], {"u8": "256", "u16": "65536", "i8": "128", "i16": "32768", "i32": "2^31"}.get(ints[0], "few")))
        fn_lets = _lets(fn)
        for c in caps:
            a = [origin(x) for x in c["args"]]
            if not a or (a[0] != "self." + alg_field and origin_deep(c["args"][0], fn_lets) != "self." + alg_field):
                problems.append("capture_diff_deadline algorithm argument = %s" % (a[0] if a else "?"))
        r.ob(not problems, "TextDiffConfig::diff: TextDiff literal and %d capture calls: %s" % (len(caps), problems or "ok"))
        if problems:
            r.find(fn.path, "diff-wiring", "TextDiffConfig::diff: " + "; ".join(problems), file=fn.file, line=fn.line)
    # TextDiff::from_X -> configure().diff_X(old, new)
    for x in ("lines", "words", "chars", "unicode_words", "graphemes", "slices"):
        for fn in prog.find("text::TextDiff::<'old, 'new, 'bufs, T>::from_" + x) + prog.find("text::TextDiff::<'old, 'new, 'bufs, str>::from_" + x) + \
                [f for f in prog.fn_list if f.name == "from_" + x and f.module == "text" and f.kind != "Closure"]:
            calls = find_nodes(fn.hir["body"], lambda n: n["k"] == "mcall" and n["name"].startswith("diff_"))
            r.instances += 1
            ok = len(calls) == 1 and calls[0]["name"] == "diff_" + x and [origin(a) for a in calls[0]["args"]] == ["old", "new"]
            r.ob(ok, "TextDiff::from_%s -> %s" % (x, [(c["name"], [origin(a) for a in c["args"]]) for c in calls]))
            if not ok:
                r.find(fn.path, "from-wiring", "TextDiff::from_%s must call diff_%s(old, new); found %s" % (
                    x, x, [(c["name"], [origin(a) for a in c["args"]]) for c in calls]), file=fn.file, line=fn.line)
            break
    # utils::diff_X
    for x in ("chars", "words", "unicode_words", "graphemes", "lines"):
        fns = prog.find("utils::diff_" + x)
        if not fns:
            continue
        fn = fns[0]
        r.instances += 1
        calls = find_nodes(fn.hir["body"], lambda n: n["k"] == "mcall" and n["name"].startswith("diff_"))
        ok = len(calls) == 1 and calls[0]["name"] == "diff_" + x and [origin(a) for a in calls[0]["args"]] == ["old", "new"]
        alg = find_nodes(fn.hir["body"], lambda n: n["k"] == "mcall" and n["name"] == "algorithm")
        ok = ok and len(alg) == 1 and [origin(a) for a in alg[0]["args"]] == ["alg"]
        rem = find_nodes(fn.hir["body"], lambda n: n["k"] == "call" and origin(n["f"]).endswith("from_text_diff"))
        rem_args = [[origin(a) for a in c["args"]] for c in rem]
        if not rem:
            # the remapper may be built by a private helper that receives (diff, old, new)
            for call in find_nodes(fn.hir["body"], lambda n: n["k"] == "call" and n["f"].get("k") == "path"):
                g = prog.fn((call["f"].get("res") or {}).get("path", ""))
                if g is None or not g.hir:
                    continue
                inner = find_nodes(g.hir["body"], lambda n: n["k"] == "call" and origin(n["f"]).endswith("from_text_diff"))
                if len(inner) != 1:
                    continue
                pnames = [pp["pat"].get("name") for pp in g.hir["params"]]
                amap = {pn: origin(a) for pn, a in zip(pnames, call["args"])}
                rem_args.append([amap.get(origin(a), origin(a)) for a in inner[0]["args"]])
        if x != "lines":
            ok = ok and len(rem_args) == 1 and rem_args[0] == ["diff", "old", "new"]
        rets = find_nodes(fn.hir["body"], lambda n: n["k"] == "ret", stop=lambda n: n["k"] == "closure")
        # ... and none in the private helper that builds the remapper and collects the slices
        for g in _local_callees(prog, fn):
            if g.hir and g.hir.get("body") and find_nodes(g.hir["body"], lambda n: n["k"] == "call" and origin(n["f"]).endswith("from_text_diff")):
                rets += find_nodes(g.hir["body"], lambda n: n["k"] == "ret", stop=lambda n: n["k"] == "closure")
        if rets:
            ok = False
        r.ob(ok, "utils::diff_%s: %s remapper%s early returns: %d" % (x, [(c["name"], [origin(a) for a in c["args"]]) for c in calls],
                                                   rem_args, len(rets)))
        if not ok:
            r.find(fn.path, "utils-wiring", "utils::diff_%s must be the straight-line wrapper configure().algorithm(alg).diff_%s(old, "
                   "new) with TextDiffRemapper::from_text_diff(&diff, old, new) and no other return path (found %d early "
                   "return(s))" % (x, x, len(rets)), file=fn.file, line=fn.line)
    return r


# ---------------------------------------------------------------- F3 / F4
def _inline_local_calls(node, prog, depth=0):
    """HIR nodes in evaluation order with the bodies of local helper methods/functions spliced in at their call sites
    (one level of private helpers such as `self.next_delete()`), so that per-arm tables survive helper extraction."""
    out = []
    if depth > 2 or prog is None:
        return [node]
    out.append(node)
    for call in find_nodes(node, lambda n: n["k"] in ("mcall", "call")):
        path = call.get("method") if call["k"] == "mcall" else (call["f"].get("res") or {}).get("path") if call["f"].get("k") == "path" else None
        g = prog.fn(path) if path else None
        if g is not None and g.hir and g.hir.get("body") and not g.public and g.kind != "Closure":
            out.append(("callee", call, g))
    return out


def _optionness(e, lets, depth=0):
    """'some' / 'none' / '?' for an Option-typed expression, looking through lets, blocks and agreeing if-branches."""
    e = unwrap(e)
    if not isinstance(e, dict) or depth > 8:
        return "?"
    k = e.get("k")
    if k == "path" and e.get("res", {}).get("k") == "local" and e["res"]["id"] in lets:
        return _optionness(lets[e["res"]["id"]], lets, depth + 1)
    if k == "block" and e["b"].get("expr"):
        return _optionness(e["b"]["expr"], lets, depth + 1)
    if k == "if" and e.get("f"):
        a, b = _optionness(e["t"], lets, depth + 1), _optionness(e["f"], lets, depth + 1)
        return a if a == b else "?"
    o = origin(e)
    if o.startswith(("Option::Some(", "Some(")):
        return "some"
    if o in ("Option::None", "None"):
        return "none"
    return "?"


def _lit_record(lit, scope, lets):
    f = {x["name"]: x["e"] for x in lit["fields"]}
    oi, ni = _optionness(f.get("old_index"), lets), _optionness(f.get("new_index"), lets)
    return {"tag": tag_of(f.get("tag")), "old_some": oi == "some", "old_none": oi == "none",
            "new_some": ni == "some", "new_none": ni == "none",
            "old_src": origin_deep(f.get("old_index"), lets), "new_src": origin_deep(f.get("new_index"), lets),
            "line": lit["line"], "node": lit, "scope": scope}


def _scope_lets(scope):
    lets = {}
    for st in find_nodes(scope, lambda n: n.get("k") == "let" and isinstance(n.get("pat"), dict) and n["pat"].get("k") == "bind"):
        if st.get("init"):
            lets[st["pat"]["id"]] = st["init"]
    lets.update(_tuple_lets(scope))
    return lets


def _change_literals(node, binds=None, prog=None):
    """Change / InlineChange struct literals below node, in source order, as records (tag, old_index is Some, new_index
    is Some, ...).  Private helpers called below `node` are looked into at the place of the call, each specialised for
    the tag / bool constants that call passes (`self.advance_old(ChangeTag::Delete, false)`)."""
    out = []
    is_lit = lambda n: n["k"] == "struct" and n.get("adt") in ("types::Change", "text::inline::InlineChange")
    own_lets = _scope_lets(node)
    seen_lits = set()
    seen_fns = set()

    def add_scope(scope):
        lets = _scope_lets(scope)
        for lit in find_nodes(scope, is_lit):
            out.append(_lit_record(lit, scope, lets))

    for n in find_nodes(node, lambda n: is_lit(n) or n["k"] in ("mcall", "call") or
                        (n["k"] == "path" and (n.get("res") or {}).get("dk") in ("Fn", "AssocFn"))):
        if is_lit(n):
            if n["id"] not in seen_lits:
                seen_lits.add(n["id"])
                out.append(_lit_record(n, node, own_lets))
            continue
        if prog is None:
            continue
        if n["k"] in ("mcall", "call"):
            g, args = _call_target(prog, n)
            if g is not None and g.hir and g.hir.get("body") and not g.public and g.kind != "Closure":
                consts = _call_consts(g, args)
                key = (g.path, tuple(sorted((k, origin(v)) for k, v in consts.items())))
                if key in seen_fns:
                    continue
                seen_fns.add(key)
                seen_fns.add((g.path, ()))
                add_scope(_specialise(g.hir["body"], {}, {}, consts) if consts else g.hir["body"])
        else:
            # a private function handed to a combinator as a value: `self.advance_old().map(deletion)`
            g = prog.fn(n["res"].get("path", ""))
            if g is not None and g.hir and g.hir.get("body") and not g.public and g.kind != "Closure" and (g.path, ()) not in seen_fns:
                seen_fns.add((g.path, ()))
                add_scope(g.hir["body"])
    return out


def rule_F4(prog):
    r = RuleResult("F4", "every Change / InlineChange constructor agrees with its tag: Equal carries Some old index and "
                         "Some new index with the old value, Delete Some old / None new with the old value, Insert None "
                         "old / Some new with the new value; ChangesIter::next yields per DiffTag exactly the changes of "
                         "that tag (Replace: the delete branch before the insert branch)")
    n = 0
    for fn in prog.user_fns():
        if fn.kind == "Closure" or not fn.hir or not fn.hir.get("body"):
            continue
        lits = _change_literals(fn.hir["body"])
        if not lits:
            continue
        # value side from the let that defines `value`: self.old[...] / self.new[...]
        vals = {}
        for st in find_nodes(fn.hir["body"], lambda n_: n_.get("k") == "let"):
            pass
        expanded = []
        pids = {pp["pat"]["id"] for pp in fn.hir["params"] if pp["pat"].get("k") == "bind"}
        for lit in lits:
            tf = unwrap({x["name"]: x["e"] for x in lit["node"]["fields"]}.get("tag"))
            if lit["tag"] is None and isinstance(tf, dict) and tf.get("k") == "path" and tf.get("res", {}).get("k") == "local" \
                    and tf["res"]["id"] in pids:
                # the tag is a parameter of a private helper: check the literal once per set of constants the callers
                # pass, in the body specialised for them (`match tag { Insert => (None, i), _ => (i, None) }`)
                ctxs = [c for c in _caller_consts(prog, fn) if tf["res"]["id"] in c]
                if ctxs and len(ctxs) == len(_caller_consts(prog, fn)):
                    for consts in ctxs:
                        body = _specialise(fn.hir["body"], {}, {}, consts)
                        for l2 in _change_literals(body):
                            if l2["node"]["id"] == lit["node"]["id"]:
                                expanded.append(l2)
                    continue
            expanded.append(lit)
        for lit in expanded:
            n += 1
            r.instances += 1
            tag = lit["tag"]
            if tag is None:
                # From<Change> for InlineChange copies accessor results
                f = {x["name"]: origin(x["e"]) for x in lit["node"]["fields"]}
                ok = f.get("tag") == "change.tag()" and f.get("old_index") == "change.old_index()" and f.get("new_index") == "change.new_index()"
                r.ob(ok, "%s line %d: conversion %s" % (fn.path, lit["line"], f))
                if not ok:
                    r.find(fn.path, "conversion", "Change -> InlineChange conversion must copy tag, old_index and new_index "
                           "from the same-named accessors; found %s" % f, file=fn.file, line=lit["line"],
                           undecided=not re.search(r"\.tag\(\)$", str(f.get("tag", ""))))   # the tag is a computed local, not an accessor: not a conversion this rule knows
                continue
            want = {"Equal": (True, True), "Delete": (True, False), "Insert": (False, True)}.get(tag)
            got = (lit["old_some"], lit["new_some"])
            nones_ok = (lit["old_some"] or lit["old_none"]) and (lit["new_some"] or lit["new_none"])
            ok = want is not None and got == want and nones_ok
            r.ob(ok, "%s line %d: Change{tag: %s, old_index: %s, new_index: %s}" % (fn.path, lit["line"], tag, lit["old_src"], lit["new_src"]))
            if not ok:
                r.find(fn.path, "change-shape:%s" % tag,
                       "a %s change must carry %s old index and %s new index; found old_index: %s, new_index: %s" % (
                           tag, "Some" if want and want[0] else "None", "Some" if want and want[1] else "None",
                           lit["old_src"], lit["new_src"]), file=fn.file, line=lit["line"])
    # ChangesIter::next per tag
    fns = [f for f in prog.user_fns() if f.name == "next" and f.impl and ty_head(f.impl["self_ty"]) == "iter::ChangesIter"]
    for fn in fns:
        ms = [(mn, arms) for mn, arms in op_matches(fn) if set(arms) >= {"Equal", "Delete", "Insert", "Replace"}]
        r.instances += 1
        if len(ms) != 1:
            r.ob(False, "ChangesIter::next: %d matches over DiffTag" % len(ms))
            r.find(fn.path, "no-tag-match", "ChangesIter::next has no single exhaustive match over the op tag", file=fn.file, line=fn.line,
                   undecided=True)      # the rule's anchor (one match over the tag) is gone: nothing decided about this function
            continue
        mn, arms = ms[0]
        for v, want in CHANGES.items():
            lits = _change_literals(arms[v]["body"], prog=prog)
            got = []
            for lit in lits:
                # value side: the `value` binding of the enclosing block
                side = _value_side(lit["node"], lit.get("scope") or arms[v]["body"])
                got.append((lit["tag"], lit["old_some"], lit["new_some"], side))
            # a value whose origin is not visible next to the literal (it arrives through a helper's return value or
            # parameter) is left to engine A, which types items by the sequence they were read from (A4 change-value-side)
            ok = len(got) == len(want) and all(g_[:3] == w_[:3] and g_[3] in (w_[3], "?") for g_, w_ in zip(got, want))
            # the branch that yields an old-side change may depend on the old cursor only (and new on new): this is
            # what makes a Replace yield all its deletes before its first insert
            gbad = []
            for lit in lits:
                cond = _innermost_if_cond(lit.get("scope") or arms[v]["body"], lit["node"])
                if cond is None:
                    continue
                names = set()
                walk_hir(cond, lambda n: names.add(n["name"]) if n.get("k") == "field" else (
                    names.add(n["res"]["name"]) if n.get("k") == "path" and n.get("res", {}).get("k") == "local" else None))
                from .coord import name_side
                sides = {name_side(x) for x in names} - {None}
                want_side = "N" if lit["tag"] == "Insert" else "O"
                if sides and sides != {want_side}:
                    gbad.append("%s change guarded by `%s`" % (lit["tag"], origin(cond)))
            ok = ok and not gbad
            r.instances += 1
            r.ob(ok, "ChangesIter::next arm %s yields %s%s" % (v, got, (" BUT " + "; ".join(gbad)) if gbad else ""))
            if gbad:
                r.find(fn.path, "arm-guard:%s" % v, "ChangesIter::next, %s op: %s -- an old-side change must be guarded by the "
                       "old cursor only and a new-side change by the new cursor only (deletes before inserts)" % (
                           v, "; ".join(gbad)), file=fn.file, line=arms[v]["pat"].get("line", fn.line))
            if not ok:
                r.find(fn.path, "arm:%s" % v, "ChangesIter::next for a %s op must yield %s (tag, old index, new index, "
                       "value side); found %s" % (v, want, got), file=fn.file, line=arms[v]["pat"].get("line", fn.line))
    return r


def _innermost_if_cond(scope, target):
    """Condition of the innermost `if` whose then- or else-branch contains `target` (by node id)."""
    best = [None]

    def contains(n, tid):
        found = [False]

        def v(x):
            if x.get("id") == tid and x.get("k") == "struct":
                found[0] = True
        walk_hir(n, v)
        return found[0]

    def go(n):
        if isinstance(n, dict):
            if n.get("k") == "if":
                if contains(n["t"], target["id"]):
                    best[0] = n["c"]
                    go(n["t"])
                    return
                if n.get("f") and contains(n["f"], target["id"]):
                    go(n["f"])
                    return
            for k, v in n.items():
                if isinstance(v, (dict, list)) and k not in ("res", "gargs", "tyj"):
                    go(v)
        elif isinstance(n, list):
            for v in n:
                go(v)
    go(scope)
    return best[0]


def _value_side(lit, scope):
    """Side of the sequence the `value` field of a Change literal is read from."""
    f = {x["name"]: x["e"] for x in lit["fields"]}
    v = unwrap(f.get("value"))
    if isinstance(v, dict) and v.get("k") == "path" and v.get("res", {}).get("k") == "local":
        hid = v["res"]["id"]
        for st in find_nodes(scope, lambda n: n.get("k") == "let" and isinstance(n.get("pat"), dict) and n["pat"].get("id") == hid):
            o = origin(st.get("init"))
            m = re.search(r"self\.(old|new)\[", o)
            if m:
                return m.group(1)
        return "?"
    o = origin(v)
    m = re.search(r"(old|new)", o)
    return m.group(1) if m else "?"


def rule_F3(prog):
    r = RuleResult("F3", "the per-variant tables of DiffOp agree: as_tag_tuple (tag and which side is empty), "
                         "apply_to_hook (same-named hook method, fields in the method's parameter order), "
                         "DiffOp::iter_slices and TextDiffRemapper::iter_slices (Equal: old slice, Delete: old, Insert: "
                         "new, Replace: delete-old then insert-new; the two copies are identical)")
    _CUR_PROG[0] = prog
    # as_tag_tuple
    for fn in prog.find("types::DiffOp::as_tag_tuple"):
        ms = [x for x in op_matches(fn) if set(x[1]) >= set(OP_FIELDS)]
        r.instances += 1
        if not ms:
            r.ob(False, "as_tag_tuple: no match over DiffOp")
            r.find(fn.path, "no-match", "as_tag_tuple has no exhaustive match over DiffOp", file=fn.file, line=fn.line)
            continue
        mn, arms = ms[0]
        for v, spec in OP_FIELDS.items():
            a = arms[v]
            binds = pat_bindings(a["pat"])
            body = unwrap(a["body"])
            r.instances += 1
            ok = False
            got = "?"
            if isinstance(body, dict) and body.get("k") == "tup" and len(body["es"]) == 3:
                t = tag_of(body["es"][0])
                o = range_desc(body["es"][1], binds)
                n = range_desc(body["es"][2], binds)
                got = (t, o, n)
                ok = (t == v and o == spec["old"] and n == spec["new"])
            r.ob(ok, "as_tag_tuple %s -> %s" % (v, got))
            if not ok:
                r.find(fn.path, "tagtuple:%s" % v, "as_tag_tuple for %s must be (DiffTag::%s, %s, %s) as (start field, length "
                       "field); found %s" % (v, v, spec["old"], spec["new"], got), file=fn.file, line=a["pat"].get("line", fn.line))
    # apply_to_hook
    for fn in prog.find("types::DiffOp::apply_to_hook"):
        ms = [x for x in op_matches(fn) if set(x[1]) >= set(HOOK_ARGS)]
        r.instances += 1
        if not ms:
            r.ob(False, "apply_to_hook: no match")
            r.find(fn.path, "no-match", "apply_to_hook has no exhaustive match over DiffOp", file=fn.file, line=fn.line)
            continue
        mn, arms = ms[0]
        for v, (meth, fields) in HOOK_ARGS.items():
            # every arm that handles the variant (an arm refined by literal sub-patterns, e.g. `Replace { new_len: 0, .. }`,
            # is an arm of that variant too): re-applying an op must reproduce that op, whatever its field values
            for a in [x for x in mn["arms"] if v in (variant_of_pat(x["pat"]) or "").split("|")]:
                binds = pat_bindings(a["pat"])
                calls = find_nodes(a["body"], lambda n: n["k"] == "mcall" and n.get("trait") == "algorithms::hook::DiffHook")
                got = [(c["name"], [local_field(x, binds) for x in c["args"]]) for c in calls]
                ok = got == [(meth, fields)]
                r.instances += 1
                r.ob(ok, "apply_to_hook %s -> %s" % (v, got))
                if not ok:
                    r.find(fn.path, "apply:%s" % v, "apply_to_hook for %s must call d.%s(%s); found %s" % (
                        v, meth, ", ".join(fields), got), file=fn.file, line=a["pat"].get("line", fn.line))
    # iter_slices twins
    desc = {}
    for label, fns in (("DiffOp::iter_slices", prog.find("types::DiffOp::iter_slices")),
                       ("TextDiffRemapper::iter_slices", [f for f in prog.user_fns() if f.name == "iter_slices" and f.module == "utils" and f.kind != "Closure"])):
        for fn in fns:
            ms = [x for x in op_matches(fn) if set(x[1]) >= set(SLICES)]
            r.instances += 1
            if not ms:
                r.ob(False, "%s: no match" % label)
                r.find(fn.path, "no-match", "%s has no exhaustive match over DiffOp" % label, file=fn.file, line=fn.line)
                continue
            mn, arms = ms[0]
            d = {}
            fn_lets = _lets(fn)
            for v, want in SLICES.items():
                a = arms[v]
                binds = pat_bindings(a["pat"])
                is_pair = lambda n: n["k"] == "tup" and len(n["es"]) == 2 and tag_of(n["es"][0]) is not None
                tups = []
                for node in find_nodes(a["body"], lambda n: is_pair(n) or n["k"] in ("call", "mcall")):
                    if is_pair(node):
                        tups.append(node)
                        continue
                    # a private helper that builds the (tag, slice) pair from its arguments: `self.old.tagged(tag, i, n)`
                    g, args = _call_target(prog, node)
                    if g is None or not g.hir or not g.hir.get("body") or g.public or g.kind == "Closure":
                        continue
                    sub = {}
                    for pp, arg in zip(g.hir["params"], args):
                        if pp["pat"].get("k") == "bind":
                            sub[pp["pat"]["id"]] = arg
                    inlined = _specialise(g.hir["body"], {}, {}, sub)
                    tups += find_nodes(inlined, is_pair)
                got = []
                for t in tups:
                    tg = tag_of(t["es"][0])
                    x = unwrap(t["es"][1])
                    hops = 0
                    while isinstance(x, dict) and x.get("k") == "path" and x.get("res", {}).get("k") == "local" and \
                            x["res"]["id"] in fn_lets and hops < 5:
                        x = unwrap(fn_lets[x["res"]["id"]])      # `let deleted = self.old.slice(..); (Delete, deleted)`
                        hops += 1
                    if isinstance(x, dict) and x.get("k") == "call":
                        # a local closure: `let old_slice = |index, len| self.old.slice(index..index + len);`
                        fx = unwrap(x["f"])
                        if isinstance(fx, dict) and fx.get("k") == "path" and fx.get("res", {}).get("k") == "local" and \
                                fx["res"]["id"] in fn_lets:
                            clo = unwrap(fn_lets[fx["res"]["id"]])
                            if isinstance(clo, dict) and clo.get("k") == "closure" and len(clo.get("params", [])) == len(x["args"]):
                                sub = {}
                                for pp, arg in zip(clo["params"], x["args"]):
                                    pp_ = pp.get("pat", pp) if isinstance(pp, dict) else pp
                                    if isinstance(pp_, dict) and pp_.get("k") == "bind":
                                        sub[pp_["id"]] = arg
                                x = unwrap(_specialise(clo["body"], {}, {}, sub))
                    side = None
                    rng = None
                    if isinstance(x, dict) and x.get("k") == "index":
                        side = origin(x["base"])
                        rng = range_desc(x["idx"], binds, fn_lets)
                    elif isinstance(x, dict) and x.get("k") == "mcall" and (
                            x["name"] == "slice" or (len(x["args"]) == 1 and origin(x["recv"]) in ("self.old", "self.new") and
                                                     range_desc(x["args"][0], binds, fn_lets) is not None)):
                        side = origin(x["recv"]).replace("self.", "")
                        rng = range_desc(x["args"][0], binds, fn_lets) if x["args"] else None
                    got.append((tg, side, rng[0] if rng else None, rng[1] if rng else None))
                d[v] = got
                ok = got == want
                r.instances += 1
                r.ob(ok, "%s %s -> %s" % (label, v, got))
                if not ok:
                    r.find(fn.path, "slices:%s" % v, "%s for %s must yield %s as (tag, sequence, start field, length field); "
                           "found %s" % (label, v, want, got), file=fn.file, line=a["pat"].get("line", fn.line))
            desc[label] = d
    if len(desc) == 2:
        a, b = desc["DiffOp::iter_slices"], desc["TextDiffRemapper::iter_slices"]
        r.instances += 1
        r.ob(a == b, "iter_slices twins agree: %s" % (a == b))
        if a != b:
            r.find("utils::TextDiffRemapper::iter_slices", "twins-differ", "DiffOp::iter_slices and TextDiffRemapper::"
                   "iter_slices (declared copies of each other) differ: %s vs %s" % (a, b))
    return r


# ---------------------------------------------------------------- F5
ADJ = {
    "shift_left": (("P", True), ("0", False)), "shift_right": (("P", False), ("0", False)),
    "grow_left": (("P", True), ("P", False)), "grow_right": (("0", False), ("P", False)),
    "shrink_left": (("0", False), ("P", True)), "shrink_right": (("P", False), ("P", True)),
}


def rule_F5(prog):
    r = RuleResult("F5", "DiffOp::{shift,grow,shrink}_{left,right} have the net effect shift_left(-k,0), shift_right(+k,0), "
                         "grow_left(-k,+k), grow_right(0,+k), shrink_left(0,-k), shrink_right(+k,-k) on (start, length): for "
                         "every variant, both index fields receive exactly the start delta and every length field exactly "
                         "the length delta, whatever helper functions and delta encodings lie in between (decided by "
                         "conditional constant propagation through the helpers, engines/neteffect.py)")
    from . import neteffect
    for name, want in sorted(ADJ.items()):
        fns = prog.find("types::DiffOp::" + name)
        r.instances += 1
        if not fns:
            r.ob(False, "%s missing" % name)
            r.find("types::DiffOp::" + name, "missing", "DiffOp::%s not found" % name)
            continue
        fn = fns[0]
        eff, notes = neteffect.net_effects(prog, fn, DIFFOP)
        if eff is None:
            r.ob(False, "DiffOp::%s: net effect undecided (%s)" % (name, "; ".join(notes)))
            r.find(fn.path, "undecided", "the net effect of DiffOp::%s on the op's fields could not be computed (%s)" % (
                name, "; ".join(notes) or "unsupported shape"), file=fn.file, line=fn.line)
            continue
        for v, spec in sorted(OP_FIELDS.items()):
            fields = {"old_index": want[0], "new_index": want[0]}
            for side in ("old", "new"):
                lf = spec[side][1]
                if lf:
                    fields[lf] = want[1]
            for fld, (amt, sub) in sorted(fields.items()):
                got = set(eff.get((v, fld), set()))
                # adding or subtracting the constant 0 is no effect
                got = {(op, a) for op, a in got if not (op in ("+", "-") and a == ("K", 0))}
                exp = set() if amt == "0" else {("-" if sub else "+", ("P", 1))}
                ok = got == exp
                r.instances += 1
                r.ob(ok, "DiffOp::%s on %s.%s: %s" % (name, v, fld, _fmt_eff(got)))
                if not ok:
                    r.find(fn.path, "net:%s:%s" % (v, fld),
                           "DiffOp::%s must change %s.%s by %s; the code changes it by %s" % (
                               name, v, fld, _fmt_eff(exp), _fmt_eff(got)), file=fn.file, line=fn.line)
        stray = sorted(k for k in eff if k[0] not in OP_FIELDS or k[1] not in
                       set(["old_index", "new_index"] + [OP_FIELDS[k[0]][sd][1] for sd in ("old", "new") if k[0] in OP_FIELDS]))
        if stray:
            r.ob(False, "DiffOp::%s writes %s" % (name, stray))
            r.find(fn.path, "net:stray", "DiffOp::%s writes %s" % (name, stray), file=fn.file, line=fn.line)
    return r


def _fmt_eff(es):
    def a(x):
        if x == ("P", 1):
            return "the amount"
        if isinstance(x, tuple) and x and x[0] == "K":
            return str(x[1])
        return "<%s>" % (x[0] if isinstance(x, tuple) and x else x)
    return "nothing" if not es else " and ".join("%s %s" % (op, a(x)) for op, x in sorted(es, key=str))


# ---------------------------------------------------------------- F6
def _single_assignment_lets(node):
    """{local id: initialiser} for `let x = e;` bindings that are never reassigned or mutably borrowed below `node`."""
    lets = {}
    for st in find_nodes(node, lambda n: n.get("k") == "let" and isinstance(n.get("pat"), dict) and n["pat"].get("k") == "bind"):
        if st.get("init") and not st["pat"].get("byref"):
            lets[st["pat"]["id"]] = st["init"]
    touched = set()

    def root_local(e):
        while isinstance(e, dict) and e.get("k") in ("field", "index", "droptemps", "cast", "addrof") or (
                isinstance(e, dict) and e.get("k") == "unary" and e.get("op") == "Deref"):
            e = e.get("base") or e.get("x")
        if isinstance(e, dict) and e.get("k") == "path" and e.get("res", {}).get("k") == "local":
            return e["res"]["id"]
        return None
    for n in find_nodes(node, lambda n: n.get("k") in ("assign", "assignop")):
        rl = root_local(n["l"])
        if rl is not None:
            touched.add(rl)
    for n in find_nodes(node, lambda n: n.get("k") == "addrof" and n.get("mut")):
        rl = root_local(n["x"])
        if rl is not None:
            touched.add(rl)
    for n in find_nodes(node, lambda n: n.get("k") == "mcall" and (n.get("recv_ty") or "").startswith("&mut")):
        rl = root_local(n["recv"])
        if rl is not None:
            touched.add(rl)
    return {k: v for k, v in lets.items() if k not in touched}


def _norm_loop(node, local_ids, expand_lets=True):
    """Render a HIR subtree with old/new erased; locals that do not mention a side keep their identity; immutable
    single-assignment `let` bindings are replaced by their initialisers (so naming an intermediate value in one twin
    only does not matter)."""
    lets = _single_assignment_lets(node) if expand_lets else {}

    def ren(name):
        return re.sub(r"(?i)(old|new)", "X", name)

    def go(n, depth=0):
        if isinstance(n, dict):
            k = n.get("k")
            if k == "path":
                rr = n.get("res", {})
                if rr.get("k") == "local":
                    if rr["id"] in lets and depth < 40:
                        return go(lets[rr["id"]], depth + 1)
                    nm = rr["name"]
                    if re.search(r"(?i)old|new", nm):
                        return "L:" + ren(nm)
                    return "L:%s#%d" % (nm, rr["id"]) if rr["id"] in local_ids else "L:" + nm
                return "P:" + ren(rr.get("path", "?").rsplit("::", 2)[-1] if "::" in rr.get("path", "") else rr.get("path", "?"))
            if k == "bind":
                return "B:" + ren(n.get("name", ""))
            if k == "let" and isinstance(n.get("pat"), dict) and n["pat"].get("id") in lets:
                return ""
            if k in ("droptemps",):
                return go(n["x"], depth + 1)
            if k == "block" and not n["b"]["stmts"] and n["b"].get("expr"):
                return go(n["b"]["expr"], depth + 1)
            # a clone of a value is the value; `.start`/`.end`/`.len()` of a range literal (possibly named by a `let`) are
            # its parts (`let tail = e - l..e; .. tail.start .. tail.len()` reads `e - l` and `l`)
            if k == "mcall" and n.get("name") == "clone" and not n.get("args") and depth < 40:
                return go(n["recv"], depth + 1)
            if depth < 40 and ((k == "field" and n.get("name") in ("start", "end")) or (k == "mcall" and n.get("name") == "len" and not n.get("args"))):
                base = unwrap(n["base"] if k == "field" else n["recv"])
                hops = 0
                while isinstance(base, dict) and hops < 6:
                    if base.get("k") == "path" and base.get("res", {}).get("k") == "local" and base["res"]["id"] in lets:
                        base = unwrap(lets[base["res"]["id"]])
                    elif base.get("k") == "mcall" and base.get("name") == "clone" and not base.get("args"):
                        base = unwrap(base["recv"])
                    elif base.get("k") in ("addrof", "droptemps") and base.get("x") is not None:
                        base = unwrap(base["x"])
                    else:
                        break
                    hops += 1
                if isinstance(base, dict) and base.get("k") == "struct" and base.get("adt") == "std::ops::Range":
                    fe = {f["name"]: f["e"] for f in base["fields"]}
                    if k == "field" and n["name"] in fe:
                        return go(fe[n["name"]], depth + 1)
                    if k == "mcall" and "start" in fe and "end" in fe:
                        st_, en_ = unwrap(fe["start"]), unwrap(fe["end"])
                        if isinstance(st_, dict) and st_.get("k") == "binary" and st_["op"] == "-" and go(st_["l"], depth + 1) == go(en_, depth + 1):
                            return go(st_["r"], depth + 1)
                        if isinstance(en_, dict) and en_.get("k") == "binary" and en_["op"] == "+" and go(en_["l"], depth + 1) == go(st_, depth + 1):
                            return go(en_["r"], depth + 1)
            zero_cmp = False
            if k == "binary" and n.get("op") == ">":
                rz = unwrap(n.get("r"))
                zero_cmp = isinstance(rz, dict) and rz.get("k") == "lit" and str(rz.get("src", "")).strip() in ("0", "0usize", "0_usize")
            parts = []
            for kk in sorted(n):
                if kk in ("id", "line", "ty", "src", "adj_ty", "recv_ty", "gargs", "tyj", "exp", "base_ty", "local", "impl_self",
                          "impl_trait", "source"):
                    continue
                v = n[kk]
                if kk == "op" and zero_cmp:
                    parts.append("op=!=")        # `x > 0` and `x != 0` are the same test on an unsigned count
                elif kk in ("name", "method", "op", "lit") and isinstance(v, str):
                    parts.append("%s=%s" % (kk, ren(v)))
                elif isinstance(v, (dict, list)):
                    parts.append("%s(%s)" % (kk, go(v, depth + 1)))
                elif kk == "k":
                    parts.append(str(v))
            return "{" + " ".join(parts) + "}"
        if isinstance(n, list):
            return "[" + ",".join(x for x in (go(x, depth + 1) for x in n) if x != "") + "]"
        return str(n)
    return go(node)


def _stmt_sides(st):
    """Sides a statement talks about, judged by its locals, bindings, fields and `Old`/`New` variant paths."""
    sides = set()

    def note(nm):
        if not isinstance(nm, str):
            return
        if re.search(r"(?i)(^|_)old(_|$)", nm) or nm == "Old":
            sides.add("O")
        if re.search(r"(?i)(^|_)new(_|$)", nm) and nm != "new" or nm == "New":
            sides.add("N")

    for n in find_nodes(st, lambda n: n.get("k") in ("path", "bind", "field")):
        if n["k"] == "path":
            rr = n.get("res", {})
            if rr.get("k") == "local":
                note(rr.get("name"))
                if rr.get("name") == "new":
                    sides.add("N")
            elif rr.get("dk", "").startswith("Ctor") or rr.get("dk") == "Variant":
                note(rr.get("path", "").rsplit("::", 1)[-1])
        elif n["k"] == "bind":
            note(n.get("name"))
            if n.get("name") == "new":
                sides.add("N")
        else:
            note(n.get("name"))
            if n.get("name") == "new":
                sides.add("N")
    return sides


def _side_units(fn):
    """Top-level statements of the body that talk about exactly one side, as (old units, new units, shared ids)."""
    body = fn.hir["body"]
    while body.get("k") in ("droptemps",):
        body = body["x"]
    blk = body["b"] if body.get("k") == "block" else {"stmts": [], "expr": body}
    outer = set()
    olds, news = [], []
    for st in blk["stmts"]:
        sides = _stmt_sides(st)
        if st["k"] == "let":
            for b in find_nodes(st["pat"], lambda n: n["k"] == "bind"):
                if not name_is_sided(b.get("name", "")):
                    outer.add(b["id"])
        if sides == {"O"}:
            olds.append(st)
        elif sides == {"N"}:
            news.append(st)
    return olds, news, outer


def name_is_sided(nm):
    return bool(re.search(r"(?i)old|new", nm or ""))


def rule_F6(prog):
    r = RuleResult("F6", "IdentifyDistinct::new treats both sides alike: the statements that handle the old side only and "
                         "those that handle the new side only are identical up to renaming old<->new (same map, same id "
                         "counter, same order of pushes), and each group consumes its own range parameter")
    fns = prog.find("algorithms::utils::IdentifyDistinct::<Int>::new")
    r.instances = len(fns)
    for fn in fns:
        olds, news, outer = _side_units(fn)
        a = [_norm_loop(st, outer) for st in olds]
        b = [_norm_loop(st, outer) for st in news]
        uses_o = any(find_nodes(st, lambda n: n.get("k") == "path" and n.get("res", {}).get("name") == "old_range") for st in olds)
        uses_n = any(find_nodes(st, lambda n: n.get("k") == "path" and n.get("res", {}).get("name") == "new_range") for st in news)
        ok_src = bool(olds) and bool(news) and uses_o and uses_n
        ok = a == b
        r.ob(ok and ok_src, "IdentifyDistinct::new: %d old-only and %d new-only statements; identical up to old<->new: %s; each "
             "consumes its range: %s" % (len(olds), len(news), ok, ok_src))
        if not ok_src:
            r.find(fn.path, "loop-ranges", "IdentifyDistinct::new must handle old_range in old-only statements and new_range in "
                   "new-only statements (found %d / %d such statements; ranges used: %s / %s)" % (len(olds), len(news), uses_o, uses_n),
                   file=fn.file, line=fn.line)
            continue
        if not ok:
            sa, sb = "|".join(a), "|".join(b)
            i = next((i for i, (x, y) in enumerate(zip(sa, sb)) if x != y), min(len(sa), len(sb)))
            line = news[0].get("line", fn.line) if news else fn.line
            for x, y, st in zip(a, b, news):
                if x != y:
                    line = st.get("line", line)
                    break
            r.find(fn.path, "sibling-loops", "the old-side and new-side halves of IdentifyDistinct::new differ (after renaming "
                   "old<->new) near `%s` vs `%s`" % (sa[max(0, i - 40):i + 40], sb[max(0, i - 40):i + 40]),
                   file=fn.file, line=line, undecided=_twin_undecided(olds, news))
    return r


def _vocab(node):
    """The vocabulary of a piece of code: the methods and functions it calls and the kinds of control constructs it uses
    (sides erased).  Two twins that are written in different vocabularies (one restyled with `get_mut().filter()`,
    iterator adapters, `or_insert_with` ..) cannot be compared by a normal form: the twin rule is then UNDECIDED."""
    out = set()
    def ren(x):
        return re.sub(r"(?i)(old|new)", "X", str(x))
    for n in find_nodes(node, lambda n: n.get("k") in ("mcall", "call", "closure", "match", "loop", "if", "letx")):
        k = n["k"]
        if k == "mcall":
            out.add("m:" + ren(n["name"]))
        elif k == "call":
            out.add("c:" + ren(origin(n["f"]).rsplit("::", 1)[-1]))
        elif k in ("closure", "match", "loop"):
            out.add("k:" + k)
    return out


def _twin_undecided(a_node, b_node):
    """Twins written in *substantially* different vocabularies: at least three methods/functions/constructs used by one
    and not by the other, or a closure on one side only.  A twin that merely gained or lost one call (`.min(..)`, `.end`
    for `.start`, an extra `+ 1`) is still compared -- that is exactly the one-sided edit the twin rules exist for."""
    va, vb = _vocab(a_node), _vocab(b_node)
    d = va ^ vb
    return len(d) >= 3 or "k:closure" in d


# ---------------------------------------------------------------- F7
TOKENIZER_METHODS = ("tokenize_lines", "tokenize_lines_and_newlines", "tokenize_words", "tokenize_chars", "ends_with_newline")
CLASSIFIERS = ("is_whitespace", "is_ascii_whitespace", "is_alphanumeric", "is_alphabetic", "is_control", "is_ascii",
               "is_numeric", "is_ascii_punctuation", "is_ascii_control", "is_ascii_graphic")


def _char_code(src):
    s = src.strip()
    m = re.match(r"^b?'(.*)'$", s)
    if m:
        body = m.group(1)
        esc = {"\\n": 10, "\\r": 13, "\\t": 9, "\\0": 0, "\\\\": 92, "\\'": 39}
        if body in esc:
            return esc[body]
        mm = re.match(r"^\\x([0-9a-fA-F]{2})$", body)
        if mm:
            return int(mm.group(1), 16)
        mm = re.match(r"^\\u\{([0-9a-fA-F]+)\}$", body)
        if mm:
            return int(mm.group(1), 16)
        if len(body) == 1:
            return ord(body)
    return None


def _token_profile(fn):
    chars = set()
    classes = set()
    bools = []

    def visit(n):
        k = n.get("k")
        if k == "lit":
            c = _char_code(n.get("src", ""))
            if c is not None:
                chars.add(c)
            elif n.get("ty") in ("u8", "char") and re.match(r"^\d+$", n.get("src", "")):
                chars.add(int(n["src"]))
        elif k == "expr" and n.get("lit"):
            c = _char_code(n["lit"])
            if c is not None:
                chars.add(c)
        elif k == "mcall" and n["name"] in CLASSIFIERS:
            classes.add(n["name"])
        elif k == "path" and (n.get("res") or {}).get("k") == "def" and \
                (n["res"].get("path", "").rsplit("::", 1)[-1] in CLASSIFIERS) and "char" in n["res"].get("path", ""):
            classes.add(n["res"]["path"].rsplit("::", 1)[-1])      # `char::is_whitespace` handed to a helper as a function
        if k == "mcall" and n["name"] in ("map_or", "is_some_and", "is_none_or") and n["args"]:
            d0 = unwrap(n["args"][0])
            if isinstance(d0, dict) and d0.get("k") == "lit" and d0.get("src") in ("true", "false"):
                bools.append(d0["src"])
    walk_hir(fn.hir, visit)
    return chars, classes, tuple(sorted(bools))


def rule_F7(prog):
    r = RuleResult("F7", "the str and [u8] implementations of the line / lines-and-newlines / word / char tokenizers and of "
                         "ends_with_newline use the same set of break characters and the same character-class predicates "
                         "(necessary for identical tokens on valid UTF-8)")
    if "bytes" not in prog.features:
        r.notes.append("feature bytes disabled: no [u8] implementation to compare")
        return r
    impls = {}
    for fn in prog.user_fns():
        if fn.impl and fn.impl.get("trait") == "text::abstraction::DiffableStr" and fn.name in TOKENIZER_METHODS:
            head = ty_head(fn.impl["self_ty"])
            impls.setdefault(fn.name, {})[head] = fn
    for name in TOKENIZER_METHODS:
        pair = impls.get(name, {})
        s = pair.get("str")
        b = pair.get("[u8]")
        r.instances += 1
        if not s or not b:
            r.ob(False, "%s: implementations found for %s" % (name, sorted(pair)))
            r.find("text::abstraction::DiffableStr::" + name, "missing-impl", "%s is not implemented for both str and [u8]" % name)
            continue
        ps, pb = _token_profile(s), _token_profile(b)
        # boolean look-ahead defaults (`peek().map_or(false, ..)`) are comparable only when both impls use that idiom
        ok = ps[:2] == pb[:2] and (not ps[2] or not pb[2] or set(ps[2]) == set(pb[2]))
        r.ob(ok, "%s: str uses chars %s classes %s bools %s; [u8] uses chars %s classes %s bools %s" % (
            name, sorted(ps[0]), sorted(ps[1]), list(ps[2]), sorted(pb[0]), sorted(pb[1]), list(pb[2])))
        if not ok:
            r.find(b.path, "sibling:%s" % name, "%s: the [u8] implementation uses break characters %s / predicates %s / boolean "
                   "defaults %s, the str implementation %s / %s / %s" % (name, sorted(pb[0]), sorted(pb[1]), list(pb[2]),
                                                                    sorted(ps[0]), sorted(ps[1]), list(ps[2])),
                   file=b.file, line=b.line)
    return r


# ---------------------------------------------------------------- F8
def _cond_lit(m, term):
    r_ = G.lit_of_condition(m, term)
    if r_:
        return r_
    t = G.strip(term)
    if isinstance(t, tuple) and t and t[0] == "unop" and t[1] == "Not":
        x = _cond_lit(m, t[2])
        if x:
            return x[0], not x[1]
        return None
    if isinstance(t, tuple) and t and t[0] == "call":
        return ("cond", re.sub(r"\w+::", "", term_str(t)), frozenset(G.roots(t))), False
    if isinstance(t, tuple) and t and t[0] in ("local", "field"):
        return ("cond", term_str(t), frozenset(G.roots(t))), False
    return None


class CondFlow(G.Flow):
    def edge_lits(self, b, t):
        """Discriminant switches (`if let Some(..) = header.take()`, `for` loops): one literal per variant."""
        m = self.m
        if t.get("discr_ty") == "bool":
            return None
        d = t["discr"]
        if d["k"] not in ("copy", "move") or d["p"]["proj"]:
            return None
        src = None
        for s in reversed(m.blocks[b]["stmts"]):
            if s["k"] == "assign" and not s["p"]["proj"] and s["p"]["l"] == d["p"]["l"] and s["rv"]["k"] == "discr":
                src = m.expand(m.resolve_place(s["rv"]["p"]), depth=2)
                break
        if src is None:
            return None
        name = re.sub(r"\w+::", "", term_str(src))
        if name.startswith(("branch(", "from_residual(")):
            return [(x, []) for x in dict.fromkeys(list(t["targets"]) + [t["otherwise"]])]   # `?`: not a guard
        rs = frozenset(G.roots(src))
        out = []
        for v, tgt in zip(t["values"], t["targets"]):
            out.append((tgt, [(("cond", "%s is #%s" % (name, v), rs), True)]))
        out.append((t["otherwise"], [(("cond", "%s is #%s" % (name, v), rs), False) for v in t["values"]]))
        return out

    def bool_cond(self, b, t):
        m = self.m
        d = t["discr"]
        if t.get("discr_ty") != "bool" or d["k"] not in ("copy", "move"):
            return None
        term = m.resolve_operand(d)
        return _cond_lit(m, term) or _cond_lit(m, m.expand(term, depth=2))


ARG_CANON = {
    "types::ChangeTag": "TAG", "udiff::UnifiedHunkHeader": "HEADER", "udiff::MissingNewlineHint": "HINT",
    "std::string::String": "NAME", "std::borrow::Cow": "VALUE", "udiff::UnifiedDiffHunk": "HUNK",
    "udiff::UnifiedDiffHunkRange": "RANGE", "usize": "NUM",
}


def _output_events(fn):
    """Ordered output events of a Display::fmt / to_writer body: [(guard literals, template)]"""
    m = fn.mir
    fl = CondFlow(fn)
    fl.run()
    # placeholders: arguments created by Argument::new_display::<T> since the last output call
    order = _rpo(m)
    events = []
    pending = []
    for b in order:
        t = m.blocks[b]["term"]
        if t["k"] != "call":
            continue
        c = m.callee(t)
        if not c:
            continue
        p = c["path"]
        if p.startswith("core::fmt::rt::Argument::<'_>::new_"):
            a = targs(c)
            h = ty_head(a[0]) if a else "?"
            pending.append(ARG_CANON.get(h, h))
            continue
        kind_ = None
        if p in ("std::io::Write::write_fmt", "std::fmt::Formatter::<'a>::write_fmt", "std::fmt::Write::write_fmt"):
            kind_ = "fmt"
        elif p in ("std::io::Write::write_all", "std::fmt::Formatter::<'a>::write_str", "std::fmt::Write::write_str"):
            kind_ = "raw"
        elif p.endswith("UnifiedDiffHunk::<'diff, 'old, 'new, 'bufs, T>::to_writer"):
            kind_ = "hunk"
        if kind_ is None:
            continue
        st = fl.instate.get(b)
        guard = None
        if st:
            for v in st:
                lits = {("%s%s" % ("" if pol else "!", _lit_name(l))) for l, pol in v.lits}
                guard = lits if guard is None else (guard & lits)
        guard = frozenset(guard or ())
        if kind_ == "fmt":
            tmpl = _template(t.get("src", ""))
            n = tmpl.count("{}")
            args = pending[-n:] if n else []
            pending = []
            out = tmpl
            for a in args:
                out = out.replace("{}", "<%s>" % a, 1)
            events.append((guard, out))
        elif kind_ == "raw":
            s = term_str(m.resolve_operand(t["args"][1]))
            events.append((guard, "<VALUE>" if "as_bytes(" in s and "value(" in s else "<RAW:%s>" % s))
        else:
            events.append((guard, "<HUNK>"))
    # concatenate adjacent events with the same guard
    out = []
    for g, s in events:
        if out and out[-1][0] == g:
            out[-1] = (g, out[-1][1] + s)
        else:
            out.append((g, s))
    return out


def _lit_name(l):
    if l[0] == "empty":
        return "empty(%s)" % l[1]
    if l[0] == "cond":
        return l[1]
    return "%s<%s" % (l[1], l[2])


def _template(src):
    m = re.search(r'"((?:[^"\\]|\\.)*)"', src)
    body = m.group(1) if m else ""
    if src.strip().startswith("writeln!"):
        body += "\\n"
    return body


def _rpo(m):
    seen = set()
    post = []

    def dfs(b):
        stack = [(b, iter(m.succs(b)))]
        seen.add(b)
        while stack:
            n, it = stack[-1]
            for s in it:
                if s not in seen and not m.blocks[s]["cleanup"]:
                    seen.add(s)
                    stack.append((s, iter(m.succs(s))))
                    break
            else:
                post.append(n)
                stack.pop()
    dfs(0)
    return list(reversed(post))


def rule_F8(prog):
    r = RuleResult("F8", "Display and to_writer of UnifiedDiffHunk, and of UnifiedDiff, produce the same sequence of "
                         "(guard, output template) pairs: same header-once logic, same per-line template `<TAG><VALUE>`, "
                         "same newline / missing-newline-hint guards; only the value placeholder differs (lossy vs bytes)")
    if "text" not in prog.features:
        return r
    pairs = []
    for head in ("udiff::UnifiedDiffHunk", "udiff::UnifiedDiff"):
        disp = [f for f in prog.user_fns() if f.module == "udiff" and f.name == "fmt" and f.impl and
                f.impl.get("trait") == "std::fmt::Display" and ty_head(f.impl["self_ty"]) == head]
        wr = [f for f in prog.user_fns() if f.module == "udiff" and f.name == "to_writer" and f.impl and
              not f.impl.get("trait") and ty_head(f.impl["self_ty"]) == head]
        if disp and wr:
            pairs.append((head, disp[0], wr[0]))
        else:
            r.find(head, "missing-sibling", "Display / to_writer pair for %s not found" % head)
    for head, d, w in pairs:
        r.instances += 1
        ed = _output_events(d)
        ew = _output_events(w)
        canon = lambda ev: [(sorted(g), s.replace("<HUNK>", "<HUNK>")) for g, s in ev]
        cd, cw = canon(ed), canon(ew)
        ok = cd == cw and len(cd) > 0
        r.ob(ok, "%s: Display events %s ; to_writer events %s" % (head.rsplit("::", 1)[-1], cd, cw))
        if head.endswith("UnifiedDiffHunk"):
            # absolute part: what is written for a line depends on that line only (its tag, value, missing_newline) and on
            # the diff's newline_terminated flag -- never on the line's position in the hunk
            for label, ev in (("Display", ed), ("to_writer", ew)):
                bad = []
                f_ = d if label == "Display" else w
                # a guard that is a plain local stands for its initialiser (`let nt = self.diff.newline_terminated();`)
                names = {}
                for st in find_nodes(f_.hir["body"], lambda n: n.get("k") == "let" and isinstance(n.get("pat"), dict) and
                                     n["pat"].get("k") == "bind" and n.get("init")):
                    names[st["pat"].get("name")] = origin(st["init"])
                # conditions under which *everything* is written (an early return for an empty hunk) say nothing about a line
                common = set.intersection(*[set(g) for g, _ in ev]) if ev else set()
                for g, s_ in ev:
                    if "<HEADER>" in s_:
                        continue
                    for x in g:
                        if x in common:
                            continue
                        bare = x.lstrip("!")
                        x2 = names.get(bare, x)
                        if ("iter_changes" in x2 and "is #1" in x2) or "newline_terminated" in x2 or "missing_newline" in x2 or \
                                ("next(" in x2 and "is #1" in x2):
                            continue
                        # a helper that is handed nothing but `self` and the line at hand classifies that line
                        # (`match self.line_ending(&change) { .. }`): line-local by construction
                        if re.match(r"^!?[\w:]+\(&?\*?self, &?next\(&(mut )?into_iter\([\w\.\(\)&\* ]+\)\) as Some\.0\) is #\d+$", x2):
                            continue
                        bad.append((x, s_))
                r.instances += 1
                r.ob(not bad, "UnifiedDiffHunk %s: per-line output guarded by line-local conditions only: %s" % (label, not bad))
                if bad:
                    r.find(f_.path, "line-guard", "UnifiedDiffHunk %s writes %r only under the positional condition `%s`: the "
                           "newline / missing-newline handling of a line must not depend on where the line sits in the hunk" % (
                               label, bad[0][1], bad[0][0]), file=f_.file, line=f_.line)
        if head.endswith("UnifiedDiff"):
            # absolute part: the file header is written inside the hunk loop, under header.take() == Some
            for label, ev in (("Display", ed), ("to_writer", ew)):
                hs = [(g, s_) for g, s_ in ev if "---" in s_ or "+++" in s_]
                def once_first(g):
                    # header.take() is Some: the header is consumed by the first hunk;  or: the index of an
                    # `.enumerate()` over the hunks is 0 and the header is Some
                    if any("take(" in x and "header" in x and "is #1" in x for x in g):
                        return True
                    first = any(re.match(r"^(!0<\w+|\w+==0|0==\w+)$", x.replace(" ", "")) for x in g)
                    enum = any("enumerate(" in x and "iter_hunks" in x and "is #1" in x for x in g)
                    some = any("header" in x and "is #1" in x for x in g)
                    return first and enum and some
                good = bool(hs) and all(any("iter_hunks" in x and "is #1" in x for x in g) and once_first(g) for g, s_ in hs)
                hk = [(g, s_) for g, s_ in ev if "<HUNK>" in s_]
                good = good and bool(hk) and all(any("iter_hunks" in x and "is #1" in x for x in g) for g, s_ in hk)
                r.instances += 1
                r.ob(good, "UnifiedDiff %s: file header guarded by (a hunk exists) and (header.take() is Some): %s" % (label, good))
                if not good:
                    f_ = d if label == "Display" else w
                    # no write event recognised at all (the loop became a closure, an iterator pairing ..): the rule has
                    # lost its anchor in this function -- undecided, not a violation
                    r.find(f_.path, "header-guard", "UnifiedDiff %s must write the file header inside the hunk loop under "
                           "header.take() (once, before the first hunk, never without hunks); events: %s" % (label, canon(ev)),
                           file=f_.file, line=f_.line, undecided=(not ev))
        if not ok:
            r.find(w.path, "siblings-differ", "%s::to_writer and its Display impl differ: Display emits %s, to_writer emits %s "
                   "(guard, template)" % (head.rsplit("::", 1)[-1], cd, cw), file=w.file, line=w.line,
                   undecided=(not cd and not cw))
    return r


# ---------------------------------------------------------------- F9
def _calls_role(prog, call, name):
    """Is `call` (a HIR call node) a call of the function the rule tables know as `name` (by name or by role)?"""
    f = unwrap(call.get("f"))
    if origin(f).endswith(name):
        return True
    pth = (f.get("res") or {}).get("path", "") if isinstance(f, dict) and f.get("k") == "path" else ""
    return bool(pth) and prog.canon(pth).endswith(name)


def rule_F9(prog):
    r = RuleResult("F9", "inline emphasis: push_values stores with a segment either `false` or the negation of "
                         "ends_with_newline of that same segment; iter_inline_changes passes emphasized=true only in the "
                         "Delete/Insert/Replace arms of the second-level diff and false in the Equal arm; non-Replace "
                         "first-level ops return before any emphasis is computed")
    if "inline" not in prog.features:
        r.notes.append("feature inline disabled")
        return r
    for fn in prog.find("text::inline::push_values"):
        pushes = find_nodes(fn.hir["body"], lambda n: n["k"] == "mcall" and n["name"] == "push")
        r.instances += 1
        bad = []
        for p in pushes:
            a = unwrap(p["args"][0]) if p["args"] else None
            if not (isinstance(a, dict) and a.get("k") == "tup" and len(a["es"]) == 2):
                bad.append("push of %s" % origin(a))
        # every (flag, segment) pair built in push_values, whether pushed directly or produced by a closure that feeds
        # `extend`
        pairs = find_nodes(fn.hir["body"], lambda n: n["k"] == "tup" and len(n["es"]) == 2 and
                           (n.get("ty") or "").replace(" ", "").startswith("(bool,"))
        for a in pairs:
            flag, seg = origin(a["es"][0]), origin(a["es"][1])
            if flag == "lit:false":
                continue
            if flag == "Not(%s.ends_with_newline())" % seg:
                continue
            bad.append("(%s, %s)" % (flag, seg))
        ok = not bad and len(pairs) >= 2
        r.ob(ok, "push_values stores %s" % [origin(a["es"][0]) for a in pairs])
        if not ok:
            r.find(fn.path, "emphasis-flag", "push_values must store (false, s) or (!seg.ends_with_newline(), seg); found %s" % (
                bad or "%d pushes" % len(pushes)), file=fn.file, line=fn.line)
    for fn in prog.find("text::inline::iter_inline_changes"):
        ms = [x for x in op_matches(fn) if set(x[1]) >= {"Equal", "Delete", "Insert", "Replace"}]
        r.instances += 1
        if not ms:
            # no per-tag match: the flag may be computed from the tag directly (`emphasized = tag != DiffTag::Equal`)
            lets_f = _lets(fn)
            flags = []
            for body in [fn.hir["body"]]:
                for c in find_nodes(body, lambda n: n["k"] == "call" and len(n["args"]) >= 3):
                    g, args = _call_target(prog, c)
                    if g is None or not g.hir:
                        continue
                    pn = [pp["pat"].get("name") for pp in g.hir["params"]]
                    if _calls_role(prog, c, "push_values") and len(args) > 2:
                        flags.append(origin_deep(args[2], lets_f))
                    elif "emphasized" in pn and find_nodes(g.hir["body"], lambda n: n["k"] == "call" and _calls_role(prog, n, "push_values")):
                        inner = find_nodes(g.hir["body"], lambda n: n["k"] == "call" and _calls_role(prog, n, "push_values"))
                        if all(len(i_["args"]) > 2 and origin(i_["args"][2]) == "emphasized" for i_ in inner):
                            flags.append(origin_deep(args[pn.index("emphasized")], lets_f))
            good = bool(flags) and all(re.match(r"^\((.*)!=DiffTag::Equal\)$", f_) or re.match(r"^Not\(\((.*)==DiffTag::Equal\)\)$", f_)
                                       for f_ in flags)
            r.instances += 4
            r.ob(good, "iter_inline_changes: emphasis flags %s" % flags)
            if not good:
                r.find(fn.path, "no-match", "iter_inline_changes has neither an exhaustive match over the second-level DiffOp nor "
                       "an emphasis flag of the form `tag != DiffTag::Equal` (found %s)" % flags, file=fn.file, line=fn.line)
            mn, arms = None, {}
        else:
            mn, arms = ms[0]
        for v, a in arms.items():
            calls = find_nodes(a["body"], lambda n: n["k"] == "call" and _calls_role(prog, n, "push_values"))
            flags = [origin(c["args"][2]) for c in calls if len(c["args"]) > 2]
            if not calls:
                # through a private helper that hands one of its own parameters to push_values as the flag
                for c in find_nodes(a["body"], lambda n: n["k"] in ("call", "mcall")):
                    g, args = _call_target(prog, c)
                    if g is None or not g.hir or not g.hir.get("body") or g.public:
                        continue
                    inner = find_nodes(g.hir["body"], lambda n: n["k"] == "call" and _calls_role(prog, n, "push_values") and len(n["args"]) > 2)
                    pn = [pp["pat"].get("name") for pp in g.hir["params"]]
                    for i_ in inner:
                        o = origin(i_["args"][2])
                        if o in pn and pn.index(o) < len(args):
                            flags.append(origin(args[pn.index(o)]))
                            calls.append(c)
            if not calls:
                # the arm only selects what to push (`=> (true, Some(run), None)`); the flag is the bool of that tuple
                body = unwrap(a["body"])
                if isinstance(body, dict) and body.get("k") == "tup":
                    flags = [origin(x) for x in body["es"] if (unwrap(x) or {}).get("k") == "lit" and
                             (unwrap(x).get("src") in ("true", "false"))]
            want = "lit:false" if v == "Equal" else "lit:true"
            ok = bool(flags) and all(f == want for f in flags)
            r.instances += 1
            r.ob(ok, "iter_inline_changes arm %s: push_values flags %s" % (v, flags))
            if not ok:
                r.find(fn.path, "emphasis:%s" % v, "in the %s arm push_values must be called with emphasized=%s; found %s" % (
                    v, want[4:], flags), file=fn.file, line=a["pat"].get("line", fn.line),
                       undecided=(not flags))    # no push_values call and no flag found in the arm: shape not recognised
        # early return for non-Replace first-level tags: an `if let Equal|Insert|Delete = tag { return }` before the match
        early = find_nodes(fn.hir["body"], lambda n: n["k"] == "letx" and variant_of_pat(n["pat"]) is not None)
        vs = set()
        for e in early:
            vs |= set((variant_of_pat(e["pat"]) or "").split("|"))
        # or a match on the tag (tuple) whose non-Replace arms return: `(DiffTag::Equal, ..) | .. => return plain(..)`
        for mn in find_nodes(fn.hir["body"], lambda n: n["k"] == "match"):
            for a in mn["arms"]:
                body = unwrap(a["body"])
                while isinstance(body, dict) and body.get("k") == "block" and not body["b"].get("expr") and len(body["b"]["stmts"]) == 1 \
                        and body["b"]["stmts"][0].get("k") in ("expr", "semi"):
                    body = unwrap(body["b"]["stmts"][0]["e"])
                if not (isinstance(body, dict) and body.get("k") == "ret"):
                    continue
                pats = a["pat"]["pats"] if a["pat"].get("k") == "or" else [a["pat"]]
                for p_ in pats:
                    while isinstance(p_, dict) and p_.get("k") == "ref":
                        p_ = p_["pat"]
                    if isinstance(p_, dict) and p_.get("k") == "tuple" and p_["pats"]:
                        p_ = p_["pats"][0]
                    v_ = variant_of_pat(p_)
                    if v_:
                        vs |= set(v_.split("|"))
        ok = {"Equal", "Insert", "Delete"} <= vs
        r.instances += 1
        r.ob(ok, "iter_inline_changes returns early for first-level tags %s" % sorted(vs))
        if not ok:
            r.find(fn.path, "early-return", "iter_inline_changes must return the plain changes for Equal/Insert/Delete ops "
                   "before computing emphasis; early-return tags found: %s" % sorted(vs), file=fn.file, line=fn.line)
    return r


# ---------------------------------------------------------------- F10
def _lets(fn, extra=None):
    """{local id: initialiser}; `extra` is a (specialised) subtree whose lets take precedence."""
    lets = {}
    for st in find_nodes(fn.hir["body"], lambda n: n.get("k") == "let" and isinstance(n.get("pat"), dict) and n["pat"].get("k") == "bind"):
        if st.get("init"):
            lets[st["pat"]["id"]] = st["init"]
    if extra is not None:
        for st in find_nodes(extra, lambda n: n.get("k") == "let" and isinstance(n.get("pat"), dict) and n["pat"].get("k") == "bind"):
            if st.get("init"):
                lets[st["pat"]["id"]] = st["init"]
    # `let (a, b) = e;`: a is e.0 (or the component itself when e is a tuple expression)
    for scope in [fn.hir["body"]] + ([extra] if extra is not None else []):
        for st in find_nodes(scope, lambda n: n.get("k") == "let" and isinstance(n.get("pat"), dict) and n["pat"].get("k") == "tuple"):
            init = unwrap(st.get("init"))
            if not isinstance(init, dict):
                continue
            for i, sp in enumerate(st["pat"]["pats"]):
                if sp.get("k") != "bind":
                    continue
                if init.get("k") == "tup" and len(init["es"]) == len(st["pat"]["pats"]):
                    lets[sp["id"]] = init["es"][i]
                else:
                    lets[sp["id"]] = {"k": "field", "base": init, "name": str(i), "line": st.get("line", 0)}
    return lets


def origin_deep(e, lets, depth=0):
    """origin() with local variables expanded through their `let` initialisers."""
    e = unwrap(e)
    if not isinstance(e, dict) or depth > 10:
        return "?"
    if e.get("k") == "path" and e.get("res", {}).get("k") == "local" and e["res"]["id"] in lets:
        return origin_deep(lets[e["res"]["id"]], lets, depth + 1)
    k = e.get("k")
    if k == "field":
        if e["name"] in ("start", "end"):
            # `.start` / `.end` of a range literal (possibly named by a `let`, possibly cloned) is that part of the literal
            base = unwrap(e["base"])
            hops = 0
            while isinstance(base, dict) and hops < 6:
                if base.get("k") == "path" and base.get("res", {}).get("k") == "local" and base["res"]["id"] in lets:
                    base = unwrap(lets[base["res"]["id"]])
                elif base.get("k") == "mcall" and base.get("name") == "clone" and not base.get("args"):
                    base = unwrap(base["recv"])
                else:
                    break
                hops += 1
            if isinstance(base, dict) and base.get("k") == "struct" and base.get("adt") == "std::ops::Range":
                fe = {f["name"]: f["e"] for f in base["fields"]}
                if e["name"] in fe:
                    return origin_deep(fe[e["name"]], lets, depth + 1)
        return origin_deep(e["base"], lets, depth + 1) + "." + e["name"]
    if k == "mcall":
        return "%s.%s(%s)" % (origin_deep(e["recv"], lets, depth + 1), e["name"],
                              ",".join(origin_deep(a, lets, depth + 1) for a in e["args"]))
    if k == "call":
        f = unwrap(e["f"])
        name = origin(f)
        args = [origin_deep(a, lets, depth + 1) for a in e["args"]]
        if name in ("Cow::Owned", "Cow::Borrowed") and len(args) == 1:
            return args[0]
        return "%s(%s)" % (name, ",".join(args))
    if k == "index":
        return "%s[%s]" % (origin_deep(e["base"], lets, depth + 1), origin_deep(e["idx"], lets, depth + 1))
    if k == "binary":
        return "(%s%s%s)" % (origin_deep(e["l"], lets, depth + 1), e["op"], origin_deep(e["r"], lets, depth + 1))
    if k == "match" and len(e.get("arms", [])) == 2:
        # `match opt { Some(x) => x, None => d }` is `opt.unwrap_or(d)`
        some = none = None
        for a in e["arms"]:
            p_ = a["pat"]
            if a.get("guard") is not None:
                some = none = None
                break
            pth = (p_.get("res") or {}).get("path", "")
            if p_.get("k") == "tuplestruct" and pth.endswith("Some") and len(p_.get("pats", [])) == 1 and p_["pats"][0].get("k") == "bind":
                b_ = unwrap(a["body"])
                if isinstance(b_, dict) and b_.get("k") == "path" and b_.get("res", {}).get("id") == p_["pats"][0]["id"]:
                    some = a
            elif (p_.get("k") in ("expr", "path", "struct", "tuplestruct") and pth.endswith("None")) or p_.get("k") == "wild":
                none = a
        if some is not None and none is not None:
            return "%s.unwrap_or(%s)" % (origin_deep(e["scrut"], lets, depth + 1), origin_deep(none["body"], lets, depth + 1))
    if k == "call":
        pass
    o = origin(e)
    return o


FIRST_FORMS = ("ops[lit:0]", "ops.first().unwrap()", "ops.first().copied().unwrap()", "ops.iter().next().unwrap()")
LAST_FORMS = ("ops[(ops.len()-lit:1)]", "ops.last().unwrap()", "ops.last().copied().unwrap()", "ops.iter().last().unwrap()",
              "ops.iter().next_back().unwrap()")


def _norm_ranges(o):
    """`x.as_tag_tuple().1` is `x.old_range()`, `.2` is `x.new_range()`."""
    o = re.sub(r"\.as_tag_tuple\(\)\.1\b", ".old_range()", o)
    o = re.sub(r"\.as_tag_tuple\(\)\.2\b", ".new_range()", o)
    # `DiffOp::old_range(x)` (a method used as a function value) is `x.old_range()`
    o = re.sub(r"(?:\w+::)*DiffOp::(old_range|new_range)\(&?([\w\[\]\.\(\)\-\+: ]+?)\)(?=\.|$)", r"\2.\1()", o)
    return o


def _hunk_range_parts(prog, e, lets, depth=0):
    """(start origin, end origin) of an expression that builds a UnifiedDiffHunkRange: the tuple-struct constructor, a
    struct literal (fields in declaration order) or a private constructor function whose body is one of those."""
    e = unwrap(e)
    if not isinstance(e, dict) or depth > 2:
        return None
    if e.get("k") == "path" and e.get("res", {}).get("k") == "local" and e["res"]["id"] in lets:
        return _hunk_range_parts(prog, lets[e["res"]["id"]], lets, depth)
    if e.get("k") == "struct" and e.get("adt") == "udiff::UnifiedDiffHunkRange":
        a = prog.adts.get("udiff::UnifiedDiffHunkRange")
        order = [f["name"] for f in a["variants"][0]["fields"]] if a else []
        f = {x["name"]: x["e"] for x in e["fields"]}
        if len(order) == 2 and set(order) == set(f):
            return tuple(_norm_ranges(origin_deep(f[n], lets)) for n in order)
        return None
    if e.get("k") == "call":
        f = unwrap(e["f"])
        res = (f.get("res") or {}) if isinstance(f, dict) and f.get("k") == "path" else {}
        if res.get("dk", "").startswith("Ctor") and res.get("path", "").endswith("UnifiedDiffHunkRange") and len(e["args"]) == 2:
            return tuple(_norm_ranges(origin_deep(a, lets)) for a in e["args"])
        # a local closure (`let span = |range_of: fn(&DiffOp) -> Range<usize>| UnifiedDiffHunkRange(range_of(first).start, ..)`)
        if res.get("k") == "local" and res.get("id") in lets:
            cl = unwrap(lets[res["id"]])
            if isinstance(cl, dict) and cl.get("k") == "closure" and len(cl.get("params", [])) == len(e["args"]) and \
                    all(pp.get("k") == "bind" for pp in cl["params"]):
                amap = {pp["id"]: a for pp, a in zip(cl["params"], e["args"])}

                def sub(n):
                    if isinstance(n, dict):
                        if n.get("k") == "path" and n.get("res", {}).get("k") == "local" and n["res"]["id"] in amap:
                            return amap[n["res"]["id"]]
                        return {k_: sub(v) for k_, v in n.items()}
                    if isinstance(n, list):
                        return [sub(x) for x in n]
                    return n
                return _hunk_range_parts(prog, sub(cl["body"]), lets, depth + 1)
        g = prog.fn(res.get("path", "")) if res.get("path") else None
        if g is None and res.get("path"):
            cands = [c for c in prog.find(res["path"]) if c.hir]
            g = cands[0] if len(cands) == 1 else None
        if g is not None and g.hir and g.hir.get("body"):
            body = unwrap(g.hir["body"])
            while isinstance(body, dict) and body.get("k") == "block" and body["b"].get("expr"):
                if any(st.get("k") != "let" for st in body["b"]["stmts"]):
                    return None
                body = unwrap(body["b"]["expr"])
            inner = _hunk_range_parts(prog, body, _lets(g), depth + 1)
            if inner is None:
                return None
            amap = {}
            for pp, a in zip(g.hir["params"], e["args"]):
                nm = pp["pat"].get("name")
                if nm:
                    amap[nm] = _norm_ranges(origin_deep(a, lets))
            if not amap:
                return inner
            rx = r"(?<![\w.])(%s)\b" % "|".join(re.escape(k) for k in amap)
            return tuple(re.sub(rx, lambda mm: amap[mm.group(1)], x) for x in inner)
    return None


def rule_F10(prog):
    r = RuleResult("F10", "UnifiedHunkHeader::new takes the old/new start from the FIRST op of the group and the old/new end "
                          "from the LAST op, old extents from old_range() and new extents from new_range()")
    if "text" not in prog.features:
        return r
    for fn in prog.find("udiff::UnifiedHunkHeader::new"):
        lets = _lets(fn)
        lits = find_nodes(fn.hir["body"], lambda n: n["k"] == "struct" and n.get("adt") == "udiff::UnifiedHunkHeader")
        r.instances += 1
        if len(lits) != 1:
            r.ob(False, "UnifiedHunkHeader::new: %d header literals" % len(lits))
            r.find(fn.path, "no-literal", "UnifiedHunkHeader::new does not build exactly one UnifiedHunkHeader", file=fn.file, line=fn.line)
            continue
        fe = {x["name"]: x["e"] for x in lits[0]["fields"]}
        problems = []
        for side in ("old", "new"):
            parts = _hunk_range_parts(prog, fe.get(side + "_range"), lets)
            got = parts if parts is not None else origin_deep(fe.get(side + "_range"), lets)
            pn = fn.hir["params"][0]["pat"].get("name") or "ops"       # the slice parameter, whatever it is called
            firsts = [x.replace("ops", pn) for x in FIRST_FORMS]
            lasts = [x.replace("ops", pn) for x in LAST_FORMS]
            ok = parts is not None and any(parts == ("%s.%s_range().start" % (a, side), "%s.%s_range().end" % (b, side))
                                           for a in firsts for b in lasts)
            r.instances += 1
            r.ob(ok, "UnifiedHunkHeader.%s_range = %s" % (side, got))
            if not ok:
                problems.append("%s_range = %s" % (side, got))
        if problems:
            r.find(fn.path, "extents", "hunk header extents must be (first op).X_range().start .. (last op).X_range().end; "
                   "found " + "; ".join(problems), file=fn.file, line=fn.line)
    return r


# ---------------------------------------------------------------- F11 / F12
def rule_F11(prog):
    r = RuleResult("F11", "the [u8] tokenizers take token boundaries from bstr's own (start, end) offsets and never derive a "
                          "byte offset from char::len_utf8 (an invalid byte decodes to U+FFFD, whose UTF-8 length is not the "
                          "length of the bytes it stands for)")
    if "bytes" not in prog.features:
        r.notes.append("feature bytes disabled")
        return r
    seen_str = 0
    for fn in prog.user_fns():
        if not (fn.impl and fn.impl.get("trait") == "text::abstraction::DiffableStr" and fn.name.startswith("tokenize_")):
            continue
        head = ty_head(fn.impl["self_ty"])
        calls = find_nodes(fn.hir, lambda n: n["k"] == "mcall" and n["name"] in ("len_utf8", "len_utf16"))
        if head == "str":
            seen_str += len(calls)
            continue
        if head != "[u8]":
            continue
        r.instances += 1
        r.ob(not calls, "[u8]::%s uses len_utf8 %d time(s)" % (fn.name, len(calls)))
        if calls:
            r.find(fn.path, "len_utf8", "[u8]::%s derives a byte offset from `%s`; decoded characters of invalid input are "
                   "replacement characters, so offsets must come from bstr's char_indices end offsets" % (fn.name, calls[0].get("src", "len_utf8")),
                   file=fn.file, line=calls[0]["line"])
        # a token must be a sub-slice of the input: the bytes of a *decoded* piece (a `&str` handed out by bstr, where an
        # invalid byte has become U+FFFD) are not
        dec = find_nodes(fn.hir, lambda n: n["k"] == "mcall" and n["name"] in ("as_bytes", "bytes", "into_bytes") and
                         (n.get("recv_ty") or "").replace("&", "").replace("'_ ", "").strip() in ("str", "std::string::String"))
        r.instances += 1
        r.ob(not dec, "[u8]::%s returns bytes of decoded pieces %d time(s)" % (fn.name, len(dec)))
        if dec:
            r.find(fn.path, "decoded-piece", "[u8]::%s builds a token from `%s`: the piece is a decoded &str in which bstr has "
                   "replaced every invalid byte by U+FFFD, so the tokens no longer concatenate to the input (use the "
                   "*_indices variant and slice `self`)" % (fn.name, dec[0].get("src", "as_bytes")[:70]),
                   file=fn.file, line=dec[0]["line"])
    if seen_str == 0:
        r.notes.append("CONTROL-FAILED: the str tokenizers do not use len_utf8 (rule pattern no longer matches anything)")
    return r


def _twin_norm(fn):
    """Body of a run tokenizer with the character-class test abstracted to CLASS(x), locals alpha-renamed and
    single-assignment lets replaced by their initialisers."""
    names = {}
    tlets = {}
    depth = [0]

    def nm(x):
        if x not in names:
            names[x] = "v%d" % len(names)
        return names[x]

    def is_class(n):
        n = unwrap(n)
        if isinstance(n, dict) and n.get("k") == "mcall" and n["name"] in CLASSIFIERS and not n["args"]:
            return n["recv"]
        if isinstance(n, dict) and n.get("k") == "binary" and n["op"] == "||":
            subs = []
            ok = True
            for side in (n["l"], n["r"]):
                side = unwrap(side)
                if isinstance(side, dict) and side.get("k") == "binary" and side["op"] == "==" and unwrap(side["r"]).get("k") == "lit":
                    subs.append(origin(side["l"]))
                else:
                    ok = False
            if ok and len(set(subs)) == 1:
                return unwrap(n["l"])["l"]
        return None

    def go(n):
        if isinstance(n, dict):
            c = is_class(n) if "k" in n else None
            if c is not None:
                return "CLASS(%s)" % go(c)
            k = n.get("k")
            if k == "path":
                rr = n.get("res", {})
                if rr.get("k") == "local":
                    if rr["id"] in tlets and depth[0] < 30:
                        depth[0] += 1
                        try:
                            return go(tlets[rr["id"]])      # a named intermediate value in one twin only does not matter
                        finally:
                            depth[0] -= 1
                    return nm(rr["id"])
                return rr.get("path", "?").rsplit("::", 1)[-1]
            if k == "bind":
                return "B:" + nm(n["id"])
            if k == "let" and isinstance(n.get("pat"), dict) and n["pat"].get("id") in tlets:
                return ""
            if k == "block" and n["b"].get("expr") and all(
                    st.get("k") == "let" and isinstance(st.get("pat"), dict) and st["pat"].get("id") in tlets for st in n["b"]["stmts"]):
                return go(n["b"]["expr"])       # a block that only named intermediate values
            if k == "droptemps":
                return go(n["x"])
            parts = []
            for kk in sorted(n):
                if kk in ("id", "line", "ty", "src", "adj_ty", "recv_ty", "gargs", "tyj", "exp", "base_ty", "local", "impl_self",
                          "impl_trait", "source", "name") and not (kk == "name" and n.get("k") in ("mcall", "field")):
                    continue
                v = n[kk]
                if isinstance(v, (dict, list)):
                    parts.append("%s(%s)" % (kk, go(v)))
                elif kk in ("k", "op", "name", "lit"):
                    parts.append("%s=%s" % (kk, v))
            return "{" + " ".join(parts) + "}"
        if isinstance(n, list):
            return "[" + ",".join(x for x in (go(x) for x in n) if x != "") + "]"
        return str(n)
    loops = find_nodes(fn.hir["body"], lambda n: n["k"] == "loop", stop=lambda n: n["k"] == "loop")
    if len(loops) != 1:
        return "LOOPS=%d" % len(loops)
    tlets.update(_single_assignment_lets(loops[0]))
    return go(loops[0])


def rule_F12(prog):
    r = RuleResult("F12", "run tokenizers are twins: within each implementation (str, [u8]) tokenize_words and "
                          "tokenize_lines_and_newlines have identical bodies up to the character-class test (is_whitespace vs "
                          "is-CR-or-LF): same start offset, same end accumulation, same consume-after-peek discipline")
    if "text" not in prog.features:
        return r
    impls = {}
    for fn in prog.user_fns():
        if fn.impl and fn.impl.get("trait") == "text::abstraction::DiffableStr" and fn.name in ("tokenize_words", "tokenize_lines_and_newlines"):
            impls.setdefault(ty_head(fn.impl["self_ty"]), {})[fn.name] = fn
    for head, pair in sorted(impls.items()):
        if len(pair) != 2:
            continue
        r.instances += 1
        a = _twin_norm(pair["tokenize_words"])
        b = _twin_norm(pair["tokenize_lines_and_newlines"])
        ok = a == b
        r.ob(ok, "%s: tokenize_words and tokenize_lines_and_newlines identical up to the class test: %s" % (head, ok))
        if not ok:
            i = next((i for i, (x, y) in enumerate(zip(a, b)) if x != y), min(len(a), len(b)))
            fnb = pair["tokenize_lines_and_newlines"]
            r.find(fnb.path, "twins-differ:%s" % head, "%s: tokenize_words and tokenize_lines_and_newlines differ beyond the "
                   "character-class test, near `%s` vs `%s`" % (head, a[max(0, i - 60):i + 40], b[max(0, i - 60):i + 40]),
                   file=fnb.file, line=fnb.line,
                   undecided=_twin_undecided(pair["tokenize_words"].hir["body"], fnb.hir["body"]))
    return r


# ---------------------------------------------------------------- F13 / F14 / F15 / F16
def _tag_test(e, known, lets, depth=0):
    """If `e` tests the tag of an op whose tag is known (`this_op.tag() == DiffTag::Insert`, possibly through a `let`),
    return its truth value, else None."""
    e = unwrap(e)
    if not isinstance(e, dict) or depth > 6:
        return None
    if e.get("k") == "path" and e.get("res", {}).get("k") == "local" and e["res"]["id"] in lets:
        return _tag_test(lets[e["res"]["id"]], known, lets, depth + 1)
    if e.get("k") == "unary" and e.get("op") == "Not":
        v = _tag_test(e["x"], known, lets, depth + 1)
        return None if v is None else (not v)
    if e.get("k") == "binary" and e["op"] in ("==", "!="):
        for a, b in ((e["l"], e["r"]), (e["r"], e["l"])):
            a, b = unwrap(a), unwrap(b)
            if isinstance(a, dict) and a.get("k") == "mcall" and a["name"] == "tag" and isinstance(b, dict) and b.get("k") == "path":
                who = origin_deep(a["recv"], lets)
                var = (b.get("res") or {}).get("path", "").rsplit("::", 1)[-1]
                if who in known and var in ("Equal", "Insert", "Delete", "Replace"):
                    return (known[who] == var) == (e["op"] == "==")
    if e.get("k") == "match" and len(e.get("arms", [])) == 2:
        # matches!(x.tag(), DiffTag::V)
        sc = unwrap(e["scrut"])
        if isinstance(sc, dict) and sc.get("k") == "mcall" and sc["name"] == "tag":
            who = origin_deep(sc["recv"], lets)
            vals = [unwrap(a["body"]) for a in e["arms"]]
            if who in known and all(isinstance(v, dict) and v.get("k") == "lit" and v.get("src") in ("true", "false") for v in vals):
                pats = e["arms"][0]["pat"]
                pats = pats["pats"] if pats.get("k") == "or" else [pats]
                hit = known[who] in [variant_of_pat(x) for x in pats]
                return (vals[0]["src"] == "true") == hit
    return None


def _const_of(node):
    """('tag', Variant) / ('bool', b) for a constant HIR expression, else None."""
    n = unwrap(node)
    if isinstance(n, dict) and n.get("k") == "path":
        pth = (n.get("res") or {}).get("path", "")
        if pth.startswith((DIFFTAG + "::", CHANGETAG + "::")):
            return ("tag", pth.rsplit("::", 1)[-1])
    if isinstance(n, dict) and n.get("k") == "lit" and n.get("src") in ("true", "false"):
        return ("bool", n["src"] == "true")
    return None


def _specialise(node, known, lets, known_locals=None):
    """Copy of a HIR subtree in which `if` expressions that test a known tag are replaced by the branch taken; with
    `known_locals` ({local id: constant expression passed by the caller}) also `match x` / `if x` on such a local, and
    every other use of the local is replaced by the constant."""
    if isinstance(node, list):
        return [_specialise(x, known, lets, known_locals) for x in node]
    if not isinstance(node, dict):
        return node
    if known_locals:
        if node.get("k") == "path" and node.get("res", {}).get("k") == "local" and node["res"]["id"] in known_locals:
            return known_locals[node["res"]["id"]]
        if node.get("k") == "match":
            sc = unwrap(node["scrut"])
            if isinstance(sc, dict) and sc.get("k") == "path" and sc.get("res", {}).get("k") == "local" and sc["res"]["id"] in known_locals:
                c = _const_of(known_locals[sc["res"]["id"]])
                if c and c[0] == "tag":
                    for a in node["arms"]:
                        if a.get("guard"):
                            break
                        pk = a["pat"].get("k")
                        vs = variant_of_pat(a["pat"])
                        if (vs and c[1] in vs.split("|")) or pk in ("wild", "bind"):
                            return _specialise(a["body"], known, lets, known_locals)
                        if not vs:
                            break
        if node.get("k") == "if":
            cnd = unwrap(node["c"])
            neg = False
            if isinstance(cnd, dict) and cnd.get("k") == "unary" and cnd.get("op") == "Not":
                cnd, neg = unwrap(cnd["x"]), True
            if isinstance(cnd, dict) and cnd.get("k") == "path" and cnd.get("res", {}).get("k") == "local" and cnd["res"]["id"] in known_locals:
                c = _const_of(known_locals[cnd["res"]["id"]])
                if c and c[0] == "bool":
                    take = c[1] != neg
                    if take:
                        return _specialise(node["t"], known, lets, known_locals)
                    if node.get("f"):
                        return _specialise(node["f"], known, lets, known_locals)
                    return {"k": "tup", "es": [], "line": node.get("line", 0)}
    if node.get("k") == "if":
        v = _tag_test(node["c"], known, lets)
        if v is True:
            return _specialise(node["t"], known, lets, known_locals)
        if v is False:
            if node.get("f"):
                return _specialise(node["f"], known, lets, known_locals)
            return {"k": "tup", "es": [], "line": node.get("line", 0)}
    return {k: (_specialise(v, known, lets, known_locals) if isinstance(v, (dict, list)) and k not in ("res", "tyj", "gargs") else v)
            for k, v in node.items()}


def _call_target(prog, call):
    """(callee Fn or None, argument nodes incl. receiver) of a HIR call / method call."""
    if call["k"] == "mcall":
        path = call.get("method") or ""
        args = [call["recv"]] + list(call["args"])
    else:
        f = unwrap(call["f"])
        path = (f.get("res") or {}).get("path", "") if isinstance(f, dict) and f.get("k") == "path" else ""
        args = list(call["args"])
    g = prog.fn(path) if path else None
    if g is None and path:
        cands = [c for c in prog.find(path) if c.hir and c.kind != "Closure"]
        g = cands[0] if len(cands) == 1 else None
    return g, args


def _call_consts(g, args):
    """{parameter binding id: constant argument node} for the tag / bool constants a call passes."""
    out = {}
    for pp, a in zip(g.hir["params"], args):
        if pp["pat"].get("k") == "bind" and _const_of(a) is not None:
            out[pp["pat"]["id"]] = unwrap(a)
    return out


def _tuple_lets(node):
    """{local id: component initialiser} for `let (a, b) = (x, y);`"""
    out = {}
    for st in find_nodes(node, lambda n: n.get("k") == "let" and isinstance(n.get("pat"), dict) and n["pat"].get("k") == "tuple"):
        init = unwrap(st.get("init"))
        if isinstance(init, dict) and init.get("k") == "tup" and len(init["es"]) == len(st["pat"]["pats"]):
            for sp, x in zip(st["pat"]["pats"], init["es"]):
                if sp.get("k") == "bind":
                    out[sp["id"]] = x
    return out


def _caller_consts(prog, fn):
    """The distinct constant-argument maps ({param id: node}) of all call sites of the private function `fn`."""
    if fn.public:
        return []
    out = {}
    for g in prog.user_fns():
        if not g.hir or not g.hir.get("body") or g.kind == "Closure":
            continue
        for call in find_nodes(g.hir["body"], lambda n: n["k"] in ("call", "mcall")):
            tgt, args = _call_target(prog, call)
            if tgt is not fn:
                continue
            consts = _call_consts(fn, args)
            key = tuple(sorted((k, origin(v)) for k, v in consts.items()))
            out[key] = consts
    return [out[k] for k in sorted(out)]


def _tag_pair_arms(fn):
    """Arms of `match (a.tag(), b.tag())` in compact.rs: [(tags tuple, arm, match node)].  An arm that covers several tag
    pairs (or-pattern) is returned once per pair, its body specialised for that pair (`if this_op.tag() == ..` resolved)."""
    out = []
    lets = _single_assignment_lets(fn.hir["body"])
    for mnode in find_nodes(fn.hir["body"], lambda n: n["k"] == "match"):
        sc = unwrap(mnode["scrut"])
        who = [None, None]
        if isinstance(sc, dict) and sc.get("k") == "tup" and len(sc["es"]) == 2:
            for i, x in enumerate(sc["es"]):
                x = unwrap(x)
                if isinstance(x, dict) and x.get("k") == "mcall" and x["name"] == "tag":
                    who[i] = origin_deep(x["recv"], lets)
        for a in mnode["arms"]:
            pats = a["pat"]["pats"] if a["pat"].get("k") == "or" else [a["pat"]]
            for p in pats:
                if p.get("k") == "tuple" and len(p["pats"]) == 2:
                    t = tuple(variant_of_pat(x) for x in p["pats"])
                    if all(t):
                        arm = a
                        if len(pats) > 1 and all(who):
                            known = {who[0]: t[0], who[1]: t[1]}
                            arm = dict(a)
                            arm["body"] = _specialise(a["body"], known, lets)
                        out.append((t, arm, mnode))
    return out


def rule_F13(prog):
    r = RuleResult("F13", "when compaction merges two adjacent ops of the same kind, the survivor grows by the length of the "
                          "side that holds the items of that kind: new_range() for Insert+Insert, old_range() for Delete+Delete "
                          "(the other range of such an op is empty)")
    for name in ("algorithms::compact::shift_diff_ops_up", "algorithms::compact::shift_diff_ops_down"):
        for fn in prog.find(name):
            for tags, arm, _ in _tag_pair_arms(fn):
                if tags[0] != tags[1] or tags[0] not in ("Insert", "Delete"):
                    continue
                grows = find_nodes(arm["body"], lambda n: n["k"] == "mcall" and n["name"] in ("grow_right", "grow_left"))
                r.instances += 1
                want = "new_range" if tags[0] == "Insert" else "old_range"
                lets = _lets(fn, arm["body"])
                got = [origin_deep(g["args"][0], lets) for g in grows if g["args"]]
                ok = bool(got) and all(re.search(r"\.%s\(\)\.len\(\)$" % want, x) for x in got)
                r.ob(ok, "%s arm (%s, %s): grows by %s" % (fn.name, tags[0], tags[1], got))
                if not ok:
                    r.find(fn.path, "merge-side:%s" % tags[0], "%s, arm (%s, %s): the merged op must grow by `<removed op>.%s().len()`; "
                           "found %s (the %s of %s is always empty)" % (fn.name, tags[0], tags[1], want, got,
                                                                        "old range" if tags[0] == "Insert" else "new range", "an Insert" if tags[0] == "Insert" else "a Delete"),
                           file=fn.file, line=arm["pat"].get("line", fn.line))
    return r


def rule_F16(prog):
    r = RuleResult("F16", "sliding an insertion down and sliding a deletion down are the same operation: the (Insert, Equal) "
                          "and (Delete, Equal) arms of shift_diff_ops_down are identical")
    for fn in prog.find("algorithms::compact::shift_diff_ops_down"):
        arms = {}
        for tags, arm, _ in _tag_pair_arms(fn):
            if tags[1] == "Equal" and tags[0] in ("Insert", "Delete"):
                arms[tags[0]] = arm
        r.instances += 1
        if set(arms) != {"Insert", "Delete"}:
            r.ob(False, "shift_diff_ops_down: arms found %s" % sorted(arms))
            r.find(fn.path, "arms-missing", "shift_diff_ops_down lacks an (Insert, Equal) or (Delete, Equal) arm", file=fn.file, line=fn.line)
            continue
        a = _norm_loop(arms["Insert"]["body"], set())
        b = _norm_loop(arms["Delete"]["body"], set())
        ok = a == b
        r.ob(ok, "shift_diff_ops_down: (Insert, Equal) and (Delete, Equal) arms identical: %s" % ok)
        if not ok:
            i = next((i for i, (x, y) in enumerate(zip(a, b)) if x != y), min(len(a), len(b)))
            r.find(fn.path, "twin-arms", "the (Insert, Equal) and (Delete, Equal) arms of shift_diff_ops_down differ near `%s` vs `%s`" % (
                a[max(0, i - 50):i + 50], b[max(0, i - 50):i + 50]), file=fn.file, line=arms["Insert"]["pat"].get("line", fn.line),
                undecided=_twin_undecided(arms["Insert"]["body"], arms["Delete"]["body"]))
    # the same two arms of the slide-up function: identical except for the length of the Equal op they may create (the
    # Delete arm's length expression is the reviewed dead code of spec.EXCEPTIONS)
    for fn in prog.find("algorithms::compact::shift_diff_ops_up"):
        arms = {}
        for tags, arm, _ in _tag_pair_arms(fn):
            if tags[1] == "Equal" and tags[0] in ("Insert", "Delete"):
                arms[tags[0]] = arm
        if set(arms) != {"Insert", "Delete"} or arms["Insert"] is arms["Delete"]:
            continue
        r.instances += 1
        a = _norm_loop(_blank_equal_len(arms["Insert"]["body"]), set())
        b = _norm_loop(_blank_equal_len(arms["Delete"]["body"]), set())
        ok = a == b
        r.ob(ok, "shift_diff_ops_up: (Insert, Equal) and (Delete, Equal) arms identical up to the created Equal's len: %s" % ok)
        if not ok:
            i = next((i for i, (x, y) in enumerate(zip(a, b)) if x != y), min(len(a), len(b)))
            r.find(fn.path, "twin-arms-up", "the (Insert, Equal) and (Delete, Equal) arms of shift_diff_ops_up differ (beyond the length "
                   "of the Equal op they create) near `%s` vs `%s`: both slide a change over the same equal run and must take "
                   "the old position from the equal run above and the new position from the change" % (
                       a[max(0, i - 50):i + 50], b[max(0, i - 50):i + 50]), file=fn.file, line=arms["Insert"]["pat"].get("line", fn.line),
                   undecided=_twin_undecided(arms["Insert"]["body"], arms["Delete"]["body"]))
    return r


def _blank_equal_len(node):
    """Copy of a HIR subtree in which the `len` field of DiffOp::Equal literals is blanked."""
    if isinstance(node, list):
        return [_blank_equal_len(x) for x in node]
    if not isinstance(node, dict):
        return node
    if node.get("k") == "struct" and str(node.get("adt", "")).endswith("DiffOp") and "Equal" in str((node.get("res") or {}).get("path", "") + str(node.get("variant", ""))):
        out = dict(node)
        out["fields"] = [dict(f, e={"k": "lit", "src": "<len>", "line": 0}) if f.get("name") == "len" else
                         dict(f, e=_blank_equal_len(f["e"])) for f in node["fields"]]
        return out
    return {k: (_blank_equal_len(v) if isinstance(v, (dict, list)) and k not in ("res", "tyj", "gargs") else v) for k, v in node.items()}


def rule_F14(prog):
    r = RuleResult("F14", "the key wrapper of IdentifyDistinct compares items in all four combinations (old/old, new/new, "
                          "old/new, new/old): every arm of its PartialEq::eq compares the two payloads with ==, none returns a "
                          "constant")
    # the key wrapper is a local item of IdentifyDistinct::new, whatever it is called
    def is_key_enum(head):
        if not head:
            return False
        if head.endswith("::Key") or ("IdentifyDistinct" in head and "::new::" in head):
            return True
        a = prog.adts.get(head)
        # hoisted to module level under another name: a two-variant enum of algorithms::utils wrapping one reference each
        return bool(a) and head.startswith("algorithms::utils::") and a["kind"] == "enum" and len(a["variants"]) == 2 and \
            all(len(v["fields"]) == 1 and v["fields"][0]["ty_str"].startswith("&") for v in a["variants"])
    fns = [f for f in prog.user_fns() if f.name == "eq" and f.impl and f.impl.get("trait") == "std::cmp::PartialEq" and
           is_key_enum(ty_head(f.impl["self_ty"]))]
    r.instances = len(fns)
    for fn in fns:
        combos = set()
        bad = []
        for mnode in find_nodes(fn.hir["body"], lambda n: n["k"] == "match"):
            for a in mnode["arms"]:
                pats = a["pat"]["pats"] if a["pat"].get("k") == "or" else [a["pat"]]
                body = unwrap(a["body"])
                is_cmp = isinstance(body, dict) and body.get("k") == "binary" and body["op"] == "=="
                for p in pats:
                    if p.get("k") == "tuple" and len(p["pats"]) == 2:
                        names = []
                        for x in p["pats"]:
                            while isinstance(x, dict) and x.get("k") == "ref":
                                x = x["pat"]
                            names.append(((x.get("res") or {}).get("path", "?")).rsplit("::", 1)[-1] if isinstance(x, dict) else "?")
                        if is_cmp:
                            combos.add(tuple(names))
                        else:
                            bad.append("(%s) => %s" % (", ".join(names), origin(body)))
                    else:
                        if not is_cmp:
                            bad.append("%s => %s" % (p.get("k"), origin(body)))
        want = {("Old", "Old"), ("New", "New"), ("Old", "New"), ("New", "Old")}
        ok = combos >= want and not bad
        r.ob(ok, "Key::eq compares %s; other arms: %s" % (sorted(combos), bad))
        if not ok:
            r.find(fn.path, "key-eq", "Key::eq must compare the payloads for %s; compared: %s; arms that do not compare: %s" % (
                sorted(want), sorted(combos), bad), file=fn.file, line=fn.line)
    return r


def rule_F15(prog):
    r = RuleResult("F15", "unique(): `seen twice` is absorbing -- a value that carries an index (Some(index), Once(index)) is "
                          "stored only through a vacant entry (first sighting); an occupied entry is only ever set to the "
                          "payload-free `repeated` value (None); the map is never overwritten with an index-carrying value")
    def payload_free(t):
        t_ = t
        while isinstance(t_, tuple) and t_ and t_[0] in ("ref", "deref"):
            t_ = t_[1]
        return isinstance(t_, tuple) and t_ and t_[0] == "aggregate" and not t_[2]

    for fn in prog.find("algorithms::utils::unique"):
        r.instances += 1
        m = fn.mir
        problems = []
        vac = occ_none = 0
        # the body and its closures (`range.fold(HashMap::new(), |mut by_item, index| { by_item.entry(..)..; by_item })`)
        all_bodies = [fn.mir] + [g.mir for g in prog.fn_list if g.kind == "Closure" and g.mir and g.path.startswith(fn.path + "::{closure")]
        for m, (bb, t) in [(mm_, ct) for mm_ in all_bodies for ct in mm_.calls()]:
            c = m.callee(t)
            if not c:
                continue
            p = c["path"]
            if p == "std::option::Option::<T>::take" and m is not fn.mir:
                # `first_seen.take()` inside `and_modify(|first_seen| ..)`: the existing entry becomes None
                occ_none += 1
            if p.startswith("std::collections::HashMap::") and p.rsplit("::", 1)[-1] == "insert":
                v = m.expand(m.resolve_operand(t["args"][2])) if len(t["args"]) > 2 else None
                if not payload_free(v):
                    problems.append("HashMap::insert(.., %s) overwrites an entry (line %d)" % (term_str(v), t["line"]))
            if p.startswith("std::collections::hash_map::VacantEntry") and p.endswith("::insert"):
                vac += 1
            if p.startswith("std::collections::hash_map::OccupiedEntry") and p.endswith("::insert"):
                v = m.expand(m.resolve_operand(t["args"][1]))
                if not payload_free(v):
                    problems.append("OccupiedEntry::insert(%s) (line %d)" % (term_str(v), t["line"]))
                else:
                    occ_none += 1
            if p.startswith("std::collections::hash_map::Entry") and p.rsplit("::", 1)[-1] in ("or_insert", "or_insert_with"):
                vac += 1        # stores only when the entry is vacant
        # stores through a reference to an existing entry: in the body and in its closures (`and_modify(|v| *v = None)`)
        m = fn.mir
        for mm in all_bodies:
            for b in mm.blocks:
                for s_ in b["stmts"]:
                    if s_["k"] == "assign" and "deref" in s_["p"]["proj"]:
                        v = mm.expand(mm.resolve_rvalue(s_["rv"]))
                        if payload_free(v):
                            occ_none += 1
                        elif isinstance(v, tuple) and v and v[0] == "aggregate":
                            problems.append("an existing entry is set to %s (line %d)" % (term_str(v), s_["line"]))
        if vac < 1:
            problems.append("no first-sighting store through a vacant entry")
        if occ_none < 1:
            problems.append("no store of the payload-free `repeated` value for a repeated item")
        r.ob(not problems, "unique(): vacant stores %d, repeated-marker stores %d, problems %s" % (vac, occ_none, problems))
        if problems:
            r.find(fn.path, "absorbing-none", "unique(): " + "; ".join(problems), file=fn.file, line=fn.line)
    return r


# ---------------------------------------------------------------- F17: the algorithm dispatcher only dispatches
def rule_F17(prog):
    r = RuleResult("F17", "algorithms::diff_deadline only dispatches: every Algorithm arm calls the same-named module's "
                          "diff_deadline with the dispatcher's own (d, old, old_range, new, new_range, deadline) in that order; "
                          "the dispatcher makes no hook call of its own and never reassigns its range parameters (an algorithm "
                          "sees exactly the ranges the caller asked for)")
    for fn in prog.find("algorithms::diff_deadline"):
        if fn.module != "algorithms":
            continue
        r.instances += 1
        pnames = [pp["pat"].get("name") for pp in fn.hir["params"]]
        want = [n for n in pnames if n != "alg"]
        pids = {pp["pat"]["id"]: pp["pat"].get("name") for pp in fn.hir["params"] if pp["pat"].get("k") == "bind"}
        problems = []
        arms_seen = 0
        for mnode in find_nodes(fn.hir["body"], lambda n: n["k"] == "match"):
            for a in mnode["arms"]:
                pats = a["pat"]["pats"] if a["pat"].get("k") == "or" else [a["pat"]]
                vs = [((p_.get("res") or {}).get("path", "")) for p_ in pats]
                vs = [v.rsplit("::", 1)[-1] for v in vs if "Algorithm::" in v]
                if not vs:
                    continue
                arms_seen += 1
                body = unwrap(a["body"])
                if not (isinstance(body, dict) and body.get("k") == "call"):
                    problems.append("arm %s is not a single call" % "|".join(vs))
                    continue
                callee = origin(body["f"])
                args = [origin(x) for x in body["args"]]
                for v in vs:
                    if callee != "%s::diff_deadline" % v.lower():
                        problems.append("Algorithm::%s dispatches to %s" % (v, callee))
                if args != want:
                    problems.append("Algorithm::%s passes (%s)" % ("|".join(vs), ", ".join(args)))
        if arms_seen == 0:
            problems.append("no match over Algorithm")
        hooks = find_nodes(fn.hir["body"], lambda n: n["k"] == "mcall" and n.get("trait") == "algorithms::hook::DiffHook")
        if hooks:
            problems.append("the dispatcher itself calls the hook (%s)" % ", ".join(sorted({h["name"] for h in hooks})))
        for n in find_nodes(fn.hir["body"], lambda n: n["k"] in ("assign", "assignop")):
            root = n["l"]
            while isinstance(root, dict) and root.get("k") in ("field", "index", "droptemps", "unary"):
                root = root.get("base") or root.get("x")
            if isinstance(root, dict) and root.get("k") == "path" and root.get("res", {}).get("id") in pids:
                problems.append("parameter `%s` is modified (`%s`)" % (pids[root["res"]["id"]], n.get("src", "")[:50]))
        r.ob(not problems, "algorithms::diff_deadline: %d arms; %s" % (arms_seen, problems or "pure dispatch"))
        if problems:
            r.find(fn.path, "dispatch", "algorithms::diff_deadline must hand its own arguments unchanged to the selected "
                   "algorithm: " + "; ".join(problems), file=fn.file, line=fn.line)
    return r


# ---------------------------------------------------------------- F18 / F19: recurrences
def rule_F18(prog):
    r = RuleResult("F18", "the forward and the backward pass of Myers' middle-snake search pick the predecessor diagonal by the "
                          "same comparison: every test of the form `v[k - 1] OP v[k + 1]` in algorithms::myers uses one and "
                          "the same OP (a pass that breaks ties the other way no longer meets its twin on a shortest path)")
    ops = []
    for fn in prog.user_fns():
        if fn.module != "algorithms::myers" or not fn.hir or not fn.hir.get("body") or fn.kind == "Closure":
            continue
        for n in find_nodes(fn.hir["body"], lambda n: n["k"] == "binary" and n["op"] in ("<", "<=", ">", ">=")):
            l, rr = unwrap(n["l"]), unwrap(n["r"])
            if not (isinstance(l, dict) and isinstance(rr, dict) and l.get("k") == "index" and rr.get("k") == "index"):
                continue
            if origin(l["base"]) != origin(rr["base"]):
                continue
            il, ir = origin(l["idx"]), origin(rr["idx"])
            ml = re.match(r"^\((\w+)([-+])lit:1\)$", il)
            mr = re.match(r"^\((\w+)([-+])lit:1\)$", ir)
            if not (ml and mr and ml.group(1) == mr.group(1) and ml.group(2) != mr.group(2)):
                continue
            op = n["op"]
            if ml.group(2) == "+":      # normalise to  v[k-1] OP v[k+1]
                op = {"<": ">", "<=": ">=", ">": "<", ">=": "<="}[op]
            ops.append((op, fn, n))
    r.instances = len(ops)
    kinds = sorted({o for o, _, _ in ops})
    ok = len(kinds) <= 1
    r.ob(ok, "algorithms::myers: %d predecessor comparisons, operators %s" % (len(ops), kinds))
    if not ok:
        # report the minority
        from collections import Counter
        cnt = Counter(o for o, _, _ in ops)
        minority = min(cnt, key=lambda k: cnt[k])
        for o, fn, n in ops:
            if o == minority:
                r.find(fn.path, "tie-break:%s" % o, "`%s` picks the predecessor diagonal with `%s` while the other pass uses `%s`: "
                       "the two searches break ties differently" % (n.get("src", ""), o, [k for k in kinds if k != o][0]),
                       file=fn.file, line=n["line"])
                break
    return r


def rule_F19(prog):
    r = RuleResult("F19", "the LCS table obeys its recurrence: in lcs::make_table a cell is diagonal + 1 when the two items are "
                          "equal and otherwise the MAXIMUM of the cell below and the cell to the right (both neighbours are "
                          "read and combined by max or by an explicit comparison)")
    for fn in prog.find("algorithms::lcs::make_table"):
        r.instances += 1
        problems = []
        ifs = [n for n in find_nodes(fn.hir["body"], lambda n: n["k"] == "if")
               if isinstance(unwrap(n["c"]), dict) and unwrap(n["c"]).get("k") == "binary" and unwrap(n["c"])["op"] == "==" and
               unwrap(unwrap(n["c"])["l"]).get("k") == "index" and unwrap(unwrap(n["c"])["r"]).get("k") == "index"]
        if len(ifs) != 1 or not ifs[0].get("f"):
            problems.append("no single `if a[..] == b[..] { .. } else { .. }`")
        else:
            def gets(node):
                out = []
                for g in find_nodes(node, lambda n: (n["k"] == "mcall" and n["name"] == "get" and n["args"]) or n["k"] == "call"):
                    if g["k"] == "call":
                        # a private cell-lookup helper: `cell(&table, i + 1, j)` with body `table.get(&(i, j))..`
                        h, args = _call_target(prog, g)
                        if h is None:
                            # a local closure: `let cell = |i, j| table.get(&(i, j)).copied();`
                            f_ = unwrap(g["f"])
                            cl = None
                            if isinstance(f_, dict) and f_.get("k") == "path" and f_.get("res", {}).get("k") == "local":
                                cl = unwrap(_lets(fn).get(f_["res"]["id"]))
                            if isinstance(cl, dict) and cl.get("k") == "closure" and len(cl.get("params", [])) == len(g["args"]):
                                inner = [x for x in find_nodes(cl["body"], lambda n: n["k"] == "mcall" and n["name"] == "get" and n["args"])]
                                if len(inner) == 1:
                                    k = unwrap(inner[0]["args"][0])
                                    while isinstance(k, dict) and k.get("k") == "addrof":
                                        k = unwrap(k["x"])
                                    if isinstance(k, dict) and k.get("k") == "tup" and len(k["es"]) == 2:
                                        amap = {pp.get("name"): origin(a_) for pp, a_ in zip(cl["params"], g["args"])}
                                        out.append((g, tuple(amap.get(origin(x), origin(x)) for x in k["es"])))
                            continue
                        if not h.hir or not h.hir.get("body") or h.public:
                            continue
                        inner = [x for x in find_nodes(h.hir["body"], lambda n: n["k"] == "mcall" and n["name"] == "get" and n["args"])]
                        if len(inner) != 1:
                            continue
                        k = unwrap(inner[0]["args"][0])
                        if not (isinstance(k, dict) and k.get("k") == "tup" and len(k["es"]) == 2):
                            continue
                        amap = {pp["pat"].get("name"): origin(a_) for pp, a_ in zip(h.hir["params"], args)}
                        key = tuple(amap.get(origin(x), origin(x)) for x in k["es"])
                        out.append((g, key))
                        continue
                    k = unwrap(g["args"][0])
                    if isinstance(k, dict) and k.get("k") == "tup" and len(k["es"]) == 2:
                        out.append((g, tuple(origin(x) for x in k["es"])))
                return out
            tg, fg = gets(ifs[0]["t"]), gets(ifs[0]["f"])
            ins = find_nodes(fn.hir["body"], lambda n: n["k"] == "mcall" and n["name"] == "insert" and len(n["args"]) == 2 and
                             isinstance(unwrap(n["args"][0]), dict) and unwrap(n["args"][0]).get("k") == "tup")
            key = tuple(origin(x) for x in unwrap(ins[0]["args"][0])["es"]) if ins else None
            if not key or len(key) != 2:
                problems.append("no table.insert((i, j), ..)")
            else:
                a, b = key
                diag = ("(%s+lit:1)" % a, "(%s+lit:1)" % b)
                down, right = ("(%s+lit:1)" % a, b), (a, "(%s+lit:1)" % b)
                if [k for _, k in tg] != [diag]:
                    problems.append("equal branch reads %s (required the diagonal %s)" % ([k for _, k in tg], diag))
                if sorted(k for _, k in fg) != sorted([down, right]):
                    problems.append("unequal branch reads %s (required %s and %s)" % ([k for _, k in fg], down, right))
                else:
                    ids = {g["id"] for g, _ in fg}
                    flets = _lets(fn)

                    def reach(node, depth=0, acc=None):
                        acc = set() if acc is None else acc
                        for g in find_nodes(node, lambda n: (n["k"] == "mcall" and n["name"] == "get") or n["k"] == "call"):
                            acc.add(g["id"])
                        if depth < 4:
                            for pth in find_nodes(node, lambda n: n["k"] == "path" and n.get("res", {}).get("k") == "local" and
                                                  n["res"]["id"] in flets):
                                reach(flets[pth["res"]["id"]], depth + 1, acc)
                        return acc

                    def covers(node):
                        return ids <= reach(node)
                    comb = [n for n in find_nodes(ifs[0]["f"], lambda n: (n["k"] == "mcall" and n["name"] == "max") or
                                                  (n["k"] == "call" and origin(n["f"]).endswith("max")) or
                                                  (n["k"] == "binary" and n["op"] in ("<", "<=", ">", ">="))) if covers(n)]
                    if not comb:
                        problems.append("the two neighbours are not combined by max / a comparison")
        r.ob(not problems, "lcs::make_table recurrence: %s" % (problems or "diagonal+1 / max(down, right)"))
        if problems:
            # no table read recognised in either branch (the lookups moved into a closure / helper): shape lost, undecided
            lost_shape = all("reads []" in p_ for p_ in problems if "reads" in p_) and any("reads" in p_ for p_ in problems)
            r.find(fn.path, "recurrence", "lcs::make_table: " + "; ".join(problems), file=fn.file, line=fn.line, undecided=lost_shape)
    return r


# ---------------------------------------------------------------- F20 / F21: tokenizer scanning discipline
LOOKAHEAD_TESTS = ("map_or", "is_some_and", "is_some", "is_none", "map_or_else")


def rule_F20(prog):
    r = RuleResult("F20", "tokenizers look ahead without consuming: a Peekable iterator is tested with peek(); the result of "
                          "next() is never used merely as a condition (`it.next().map_or(false, ..)` drops the item it just "
                          "took whenever the test fails, so that item's bytes vanish from the token stream)")
    for fn in prog.user_fns():
        if not fn.hir or not fn.hir.get("body") or fn.kind == "Closure" or not fn.module.startswith("text"):
            continue
        for n in find_nodes(fn.hir["body"], lambda n: n["k"] == "mcall" and n["name"] in LOOKAHEAD_TESTS and
                            (n.get("ty") or "") == "bool"):
            recv = unwrap(n["recv"])
            if not (isinstance(recv, dict) and recv.get("k") == "mcall" and recv["name"] in ("peek", "next", "next_back") and
                    "Peekable" in (recv.get("recv_ty") or "")):
                continue
            r.instances += 1
            ok = recv["name"] == "peek"
            r.ob(ok, "%s line %d: `%s`" % (fn.path, n["line"], n.get("src", "")[:60]))
            if not ok:
                r.find(fn.path, "consuming-lookahead:%s" % _norm_ws(n.get("src", ""))[:60],
                       "`%s` consumes an item just to test it; when the test fails the item is lost (use peek())" % n.get("src", ""),
                       file=fn.file, line=n["line"])
    return r


def _norm_ws(s_):
    return re.sub(r"\s+", "", s_ or "")


STD_LINE_SPLITTERS = ("lines", "split_inclusive", "split_terminator", "split", "rsplit", "split_once", "lines_with_terminator",
                      "splitn")
# segmenters that skip part of the text (whitespace, punctuation, terminators): their pieces do not cover the input
SKIPPING_SEGMENTERS = ("words", "word_indices", "unicode_words", "unicode_word_indices", "split_whitespace",
                       "split_ascii_whitespace", "fields", "fields_with", "lines", "trim", "trim_start", "trim_end",
                       "sentences", "unicode_sentences")


def rule_F21(prog):
    r = RuleResult("F21", "the line tokenizers scan for line ends themselves: tokenize_lines / tokenize_lines_and_newlines of "
                          "str and [u8] do not delegate to the standard splitters (str::lines, split_inclusive, split('\\n'), "
                          "..), whose notion of a line end (no lone CR) differs from this crate's")
    for fn in prog.user_fns():
        if not (fn.impl and fn.impl.get("trait") == "text::abstraction::DiffableStr" and
                fn.name in ("tokenize_lines", "tokenize_lines_and_newlines")) or not fn.hir or not fn.hir.get("body"):
            continue
        r.instances += 1
        bad = [n for n in find_nodes(fn.hir["body"], lambda n: n["k"] == "mcall" and n["name"] in STD_LINE_SPLITTERS and
                                     not n.get("local") and (n.get("recv_ty") or "").replace("&", "").strip() in ("str", "[u8]", "Self"))]
        r.ob(not bad, "%s: std splitters used: %s" % (fn.path, [b["name"] for b in bad]))
        if bad:
            r.find(fn.path, "std-splitter:%s" % bad[0]["name"], "%s delegates line splitting to `%s`, which does not treat a lone "
                   "CR as a line end and is not what the other DiffableStr implementation does" % (fn.name, bad[0].get("src", bad[0]["name"])[:80]),
                   file=fn.file, line=bad[0]["line"])
    # every tokenizer: only segmenters whose pieces cover the whole input
    for fn in prog.user_fns():
        if not (fn.impl and fn.impl.get("trait") == "text::abstraction::DiffableStr" and fn.name.startswith("tokenize_")) \
                or not fn.hir or not fn.hir.get("body"):
            continue
        r.instances += 1
        bad = [n for n in find_nodes(fn.hir["body"], lambda n: n["k"] == "mcall" and n["name"] in SKIPPING_SEGMENTERS and not n.get("local"))
               if (n.get("recv_ty") or "").replace("&", "").strip() in ("str", "[u8]", "Self")]
        bad += [n for n in find_nodes(fn.hir["body"], lambda n: n["k"] == "call" and origin(n["f"]).rsplit("::", 1)[-1] in SKIPPING_SEGMENTERS)]
        r.ob(not bad, "%s: skipping segmenters used: %s" % (fn.path, [b.get("name") or origin(b["f"]) for b in bad]))
        if bad:
            nm = bad[0].get("name") or origin(bad[0]["f"])
            r.find(fn.path, "skipping-segmenter:%s" % nm.rsplit("::", 1)[-1], "%s takes its tokens from `%s`, which leaves out "
                   "part of the text (separators / terminators): the tokens no longer concatenate to the input" % (
                       fn.name, bad[0].get("src", nm)[:80]), file=fn.file, line=bad[0]["line"])
    return r


# ---------------------------------------------------------------- F22: partial re-initialisation
def rule_F22(prog):
    r = RuleResult("F22", "no partial re-initialisation: a `&mut self` method that takes the same kind of argument as the "
                          "type's constructor and overwrites some of the fields the constructor derives from that argument "
                          "overwrites all of them (an iterator pointed at another op must not keep counters of the previous op)")
    by_type = {}
    for fn in prog.user_fns():
        if fn.kind == "Closure" or not fn.hir or not fn.hir.get("body") or not fn.impl or fn.impl.get("trait"):
            continue
        by_type.setdefault(ty_head(fn.impl.get("self_ty")), []).append(fn)
    for head, fns in sorted(by_type.items(), key=lambda kv: str(kv[0])):
        ctors = [f for f in fns if f.name == "new"]
        if not ctors or head is None:
            continue
        ctor = ctors[0]
        lits = find_nodes(ctor.hir["body"], lambda n: n["k"] == "struct" and n.get("adt") == head)
        if len(lits) != 1:
            continue
        lets = _lets(ctor)
        cparams = {pp["pat"].get("name"): pp["ty"] for pp in ctor.hir["params"] if pp["pat"].get("name")}
        deps = {}
        for x in lits[0]["fields"]:
            o = origin_deep(x["e"], lets)
            deps[x["name"]] = {pn for pn in cparams if re.search(r"(?<![\w.])%s\b" % re.escape(pn), o)}
        for m_ in fns:
            if m_ is ctor or not m_.hir["params"] or m_.hir["params"][0]["pat"].get("name") != "self":
                continue
            if not m_.hir["params"][0]["ty"].startswith("&mut"):
                continue
            assigned = set()
            for a in find_nodes(m_.hir["body"], lambda n: n["k"] in ("assign",)):
                o = origin(a["l"])
                mm = re.match(r"^self\.(\w+)$", o)
                if mm:
                    assigned.add(mm.group(1))
            if not assigned:
                continue
            for pp in m_.hir["params"][1:]:
                for cn, cty in cparams.items():
                    if cty != pp["ty"] or cty in ("usize", "bool"):
                        continue
                    derived = {f for f, d in deps.items() if cn in d}
                    if not (assigned & derived):
                        continue
                    r.instances += 1
                    missing = sorted(derived - assigned)
                    r.ob(not missing, "%s re-initialises %s from `%s`; fields the constructor derives from it: %s" % (
                        m_.path, sorted(assigned & derived), pp["pat"].get("name"), sorted(derived)))
                    if missing:
                        r.find(m_.path, "partial-reinit:%s" % ",".join(missing),
                               "%s overwrites %s from its `%s` argument but leaves %s as they were, although %s::new derives "
                               "them from the same argument: they still describe the previous value" % (
                                   m_.name, sorted(assigned & derived), pp["pat"].get("name"), missing, head.rsplit("::", 1)[-1]),
                               file=m_.file, line=m_.line)
    return r


# ---------------------------------------------------------------- F23: same-tag change blocks of ChangesIter::next
def rule_F23(prog):
    r = RuleResult("F23", "ChangesIter::next builds the changes of one tag the same way everywhere: the block that yields a "
                          "Delete change for a Delete op and the one that yields it for the delete half of a Replace op are "
                          "identical (same cursor and index advances), likewise for Insert")
    fns = [f for f in prog.user_fns() if f.name == "next" and f.impl and ty_head(f.impl["self_ty"]) == "iter::ChangesIter"
           and f.hir and f.hir.get("body")]
    for fn in fns:
        blocks = {}

        def visit(n, enclosing):
            if isinstance(n, dict):
                enc = enclosing
                if n.get("k") == "block":
                    enc = n
                if n.get("k") == "struct" and n.get("adt") == "types::Change" and enc is not None:
                    t = tag_of({x["name"]: x["e"] for x in n["fields"]}.get("tag"))
                    if t:
                        blocks.setdefault(t, []).append(enc)
                for k, v in n.items():
                    if isinstance(v, (dict, list)) and k not in ("res", "tyj", "gargs"):
                        visit(v, enc)
            elif isinstance(n, list):
                for x in n:
                    visit(x, enclosing)
        visit(fn.hir["body"], None)
        for tag, bl in sorted(blocks.items()):
            if len(bl) < 2:
                continue
            r.instances += 1
            norms = [_norm_loop(b, set()) for b in bl]
            ok = len(set(norms)) == 1
            r.ob(ok, "ChangesIter::next: %d blocks yield a %s change; identical: %s" % (len(bl), tag, ok))
            if not ok:
                a, b = norms[0], next(x for x in norms if x != norms[0])
                i = next((i for i, (x, y) in enumerate(zip(a, b)) if x != y), min(len(a), len(b)))
                other = bl[[x != norms[0] for x in norms].index(True)]
                r.find(fn.path, "tag-blocks-differ:%s" % tag, "the blocks of ChangesIter::next that yield a %s change differ near "
                       "`%s` vs `%s`: one of them advances the cursors / indices differently" % (
                           tag, a[max(0, i - 50):i + 40], b[max(0, i - 50):i + 40]), file=fn.file, line=other.get("line", fn.line),
                       undecided=_twin_undecided(bl[0], other))
    return r


# ---------------------------------------------------------------- F24: a byte cursor advances by the char just consumed
def rule_F24(prog):
    r = RuleResult("F24", "a byte cursor of a tokenizer advances by the width of the character consumed in that very iteration: "
                          "in `end += X.len_utf8()` (possibly through a local) X is bound inside the innermost loop that contains "
                          "the assignment, not by an enclosing loop (the width of the run's first character is not the width "
                          "of its later characters)")
    for fn in prog.user_fns():
        if not fn.hir or not fn.hir.get("body") or fn.kind == "Closure" or not fn.module.startswith("text"):
            continue
        bind_loop = {}       # binding id -> id of the innermost loop at its binding site (None = function level)
        sites = []           # (assignop node, innermost loop id)
        lets = _lets(fn)

        def visit(n, loop):
            if isinstance(n, dict):
                k = n.get("k")
                cur = loop
                if k == "loop":
                    cur = n.get("id", id(n))
                if k == "bind":
                    bind_loop[n["id"]] = cur
                if k == "assignop" and n.get("op") in ("+=", "+"):
                    sites.append((n, cur))
                for kk, v in n.items():
                    if isinstance(v, (dict, list)) and kk not in ("res", "tyj", "gargs"):
                        visit(v, cur)
            elif isinstance(n, list):
                for x in n:
                    visit(x, loop)
        visit(fn.hir["body"], None)
        for node, loop in sites:
            rhs = unwrap(node["r"])
            hops = 0
            while isinstance(rhs, dict) and rhs.get("k") == "path" and rhs.get("res", {}).get("k") == "local" and \
                    rhs["res"]["id"] in lets and hops < 4:
                rhs = unwrap(lets[rhs["res"]["id"]])
                hops += 1
            if not (isinstance(rhs, dict) and rhs.get("k") == "mcall" and rhs["name"] in ("len_utf8", "len_utf16")):
                continue
            recv = unwrap(rhs["recv"])
            if not (isinstance(recv, dict) and recv.get("k") == "path" and recv.get("res", {}).get("k") == "local"):
                continue
            r.instances += 1
            bl = bind_loop.get(recv["res"]["id"], "unknown")
            ok = loop is None or bl == loop
            r.ob(ok, "%s line %d: `%s` advances by the width of `%s`, bound in %s loop" % (
                fn.path, node["line"], node.get("src", "")[:50], recv["res"]["name"], "the same" if ok else "an enclosing"))
            if not ok:
                r.find(fn.path, "stale-width:%s" % recv["res"]["name"],
                       "`%s` advances a byte cursor inside an inner loop by the width of `%s`, a character bound by an enclosing "
                       "loop: later characters of the run may be wider or narrower, the slice boundary then falls inside a "
                       "character or short of it" % (node.get("src", "")[:60], recv["res"]["name"]), file=fn.file, line=node["line"])
    return r


# ---------------------------------------------------------------- F25: callers of group_diff_ops are plain wrappers
def rule_F25(prog):
    r = RuleResult("F25", "every in-crate caller of group_diff_ops hands over its ops and the radius it was given, unchanged, "
                          "and returns the result on its only path (Capture::into_grouped_ops, TextDiff::grouped_ops, the "
                          "unified-diff hunk iterator): no caller clamps the radius or short-cuts the grouping")
    for fn in prog.user_fns():
        if not fn.hir or not fn.hir.get("body") or fn.kind == "Closure" or fn.spath == "common::group_diff_ops":
            continue
        calls = [c for c in find_nodes(fn.hir["body"], lambda n: n["k"] == "call" and origin(n["f"]).endswith("group_diff_ops"))]
        if not calls:
            continue
        lets = _lets(fn)
        pnames = [pp["pat"].get("name") for pp in fn.hir["params"]]
        for c in calls:
            r.instances += 1
            problems = []
            if len(c["args"]) != 2:
                continue
            rad = origin_deep(c["args"][1], lets)
            if not (rad in pnames or re.match(r"^self(\.\w+)+$", rad) or re.match(r"^lit:\d+$", rad)):
                problems.append("the radius passed on is `%s`, not the radius this function was given" % rad)
            rets = find_nodes(fn.hir["body"], lambda n: n["k"] == "ret", stop=lambda n: n["k"] == "closure")
            if rets:
                problems.append("%d early return(s) bypass the grouping" % len(rets))
            r.ob(not problems, "%s: group_diff_ops(%s, %s)" % (fn.path, origin_deep(c["args"][0], lets)[:40], rad))
            if problems:
                r.find(fn.path, "group-wrapper", "%s must hand its ops and its radius to group_diff_ops unchanged: %s" % (
                    fn.name, "; ".join(problems)), file=fn.file, line=c["line"])
    return r


# ---------------------------------------------------------------- F26: offset bookkeeping of pushed pieces
def rule_F26(prog):
    r = RuleResult("F26", "a running byte offset stored next to a text piece advances by that very piece: where a loop pushes "
                          "`(piece, .., offset)` and the function keeps `offset` with `offset += X.len()`, the advance sits in "
                          "the same loop as the push and X is the pushed piece")
    for fn in prog.user_fns():
        if not fn.hir or not fn.hir.get("body") or fn.kind == "Closure" or not (fn.module.startswith("text") or fn.module == "utils"):
            continue
        advances = []      # (cursor id, piece id or None, loop)
        pushes = []        # (node, loop, [local ids in tuple])

        def visit(n, loop):
            if isinstance(n, dict):
                k = n.get("k")
                cur = n.get("id", id(n)) if k == "loop" else loop
                if k == "assignop" and n.get("op") in ("+=", "+"):
                    l = unwrap(n["l"])
                    rr = unwrap(n["r"])
                    if isinstance(l, dict) and l.get("k") == "path" and l.get("res", {}).get("k") == "local" and \
                            isinstance(rr, dict) and rr.get("k") == "mcall" and rr["name"] == "len":
                        rc = unwrap(rr["recv"])
                        pid = rc["res"]["id"] if isinstance(rc, dict) and rc.get("k") == "path" and rc.get("res", {}).get("k") == "local" else None
                        advances.append((l["res"]["id"], pid, cur))
                if k == "mcall" and n["name"] == "push" and n["args"]:
                    a = unwrap(n["args"][0])
                    if isinstance(a, dict) and a.get("k") == "tup":
                        ids = []
                        for x in a["es"]:
                            x = unwrap(x)
                            if isinstance(x, dict) and x.get("k") == "path" and x.get("res", {}).get("k") == "local":
                                ids.append(x["res"]["id"])
                        pushes.append((n, cur, ids))
                for kk, v in n.items():
                    if isinstance(v, (dict, list)) and kk not in ("res", "tyj", "gargs"):
                        visit(v, cur)
            elif isinstance(n, list):
                for x in n:
                    visit(x, loop)
        visit(fn.hir["body"], None)
        cursors = {c for c, _, _ in advances}
        for node, loop, ids in pushes:
            cs = [i for i in ids if i in cursors]
            if not cs or loop is None:
                continue
            c = cs[0]
            r.instances += 1
            ok = any(ac == c and al == loop and ap in ids for ac, ap, al in advances)
            r.ob(ok, "%s line %d: `%s`: offset advanced by the pushed piece in the same loop: %s" % (
                fn.path, node["line"], node.get("src", "")[:50], ok))
            if not ok:
                r.find(fn.path, "offset-bookkeeping", "`%s` stores a running offset with a piece, but the loop that pushes does not "
                       "advance the offset by that piece's length: all pieces pushed by this loop carry the same offset" % (
                           node.get("src", "")[:70]), file=fn.file, line=node["line"])
    return r



# ---------------------------------------------------------------- linear normal form of integer comparisons (F27-F29)
def _lin_expr(e, lets, sign=1, acc=None, depth=0):
    """{leaf: coefficient, "#": constant} of an expression built with + , * literal, << literal, saturating/wrapping
    add and mul by a literal over arbitrary leaves (a leaf is named by its let-expanded origin).  Subtraction is NOT
    folded (on usize it is not the inverse of addition): `a - b` is a leaf of its own.  None if not an integer shape."""
    acc = {} if acc is None else acc
    e = unwrap(e)
    if not isinstance(e, dict) or depth > 12:
        return None
    if e.get("k") == "path" and e.get("res", {}).get("k") == "local" and e["res"]["id"] in lets:
        return _lin_expr(lets[e["res"]["id"]], lets, sign, acc, depth + 1)
    k = e.get("k")
    if k == "lit" and re.match(r"^\d+(_?[ui](8|16|32|64|128|size))?$", str(e.get("src", ""))):
        acc["#"] = acc.get("#", 0) + sign * int(re.match(r"^\d+", e["src"]).group(0))
        return acc
    def lit_of(x):
        x = unwrap(x)
        if isinstance(x, dict) and x.get("k") == "path" and x.get("res", {}).get("k") == "local" and x["res"]["id"] in lets:
            return lit_of(lets[x["res"]["id"]])
        if isinstance(x, dict) and x.get("k") == "lit" and re.match(r"^\d+", str(x.get("src", ""))) and "." not in str(x["src"]):
            return int(re.match(r"^\d+", x["src"]).group(0))
        return None
    if k == "binary" and e["op"] == "+":
        if _lin_expr(e["l"], lets, sign, acc, depth + 1) is None or _lin_expr(e["r"], lets, sign, acc, depth + 1) is None:
            return None
        return acc
    if k == "binary" and e["op"] == "*":
        for a, b in ((e["l"], e["r"]), (e["r"], e["l"])):
            c = lit_of(b)
            if c is not None:
                return _lin_expr(a, lets, sign * c, acc, depth + 1)
    if k == "binary" and e["op"] == "<<":
        c = lit_of(e["r"])
        if c is not None and c < 16:
            return _lin_expr(e["l"], lets, sign * (1 << c), acc, depth + 1)
    if k == "mcall" and e["name"] in ("saturating_add", "wrapping_add") and len(e["args"]) == 1:
        if _lin_expr(e["recv"], lets, sign, acc, depth + 1) is None or _lin_expr(e["args"][0], lets, sign, acc, depth + 1) is None:
            return None
        return acc
    if k == "mcall" and e["name"] in ("saturating_mul", "wrapping_mul") and len(e["args"]) == 1:
        c = lit_of(e["args"][0])
        if c is not None:
            return _lin_expr(e["recv"], lets, sign * c, acc, depth + 1)
    if k == "cast":
        return _lin_expr(e.get("e") or e.get("x"), lets, sign, acc, depth + 1) if (e.get("e") or e.get("x")) else None
    leaf = origin_deep(e, lets)
    if leaf == "?" or leaf.startswith("lit:"):
        return None
    acc[leaf] = acc.get(leaf, 0) + sign
    return acc


def _lin_cmp(c, lets, negate=False):
    """Normal form of an integer comparison: ("gt", {leaf: coef}, k) meaning sum > k, or ("eq"/"ne", {..}, k).
    `!c`, `a >= b` (a > b - 1), flipped operands and `matches!`-free `if`/else negation are folded.  None otherwise."""
    c = unwrap(c)
    if not isinstance(c, dict):
        return None
    if c.get("k") == "path" and c.get("res", {}).get("k") == "local" and c["res"]["id"] in lets:
        return _lin_cmp(lets[c["res"]["id"]], lets, negate)
    if c.get("k") == "unary" and c.get("op") in ("!", "Not", "not"):
        return _lin_cmp(c.get("e") or c.get("x"), lets, not negate)
    if c.get("k") == "mcall" and c["name"] == "is_empty" and not c["args"]:
        # x.is_empty()  ==  x.len() == 0
        leaf = origin_deep(c["recv"], lets) + ".len()"
        return ("ne" if negate else "eq", {leaf: 1}, 0)
    if c.get("k") != "binary" or c["op"] not in (">", "<", ">=", "<=", "==", "!="):
        return None
    l = _lin_expr(c["l"], lets)
    r = _lin_expr(c["r"], lets)
    if l is None or r is None:
        return None
    op = c["op"]
    if negate:
        op = {">": "<=", "<": ">=", ">=": "<", "<=": ">", "==": "!=", "!=": "=="}[op]
    def diff(a, b):
        d = dict(a)
        for k_, v in b.items():
            d[k_] = d.get(k_, 0) - v
        k0 = -d.pop("#", 0)
        return {k_: v for k_, v in d.items() if v}, k0
    if op in ("==", "!="):
        d, k0 = diff(l, r)
        # sign-normalise: first leaf (sorted) positive
        if d and sorted(d.items())[0][1] < 0:
            d, k0 = {k_: -v for k_, v in d.items()}, -k0
        return ("eq" if op == "==" else "ne", d, k0)
    if op in ("<", "<="):
        l, r, op = r, l, {"<": ">", "<=": ">="}[op]
    d, k0 = diff(l, r)          # sum(d) > k0   or   sum(d) >= k0
    if op == ">=":
        k0 -= 1
    return ("gt", d, k0)

# ---------------------------------------------------------------- F27: the split threshold of group_diff_ops
_TWICE = r"(?:\((\w+)\*lit:2\)|\(lit:2\*(\w+)\)|\((\w+)\+(\w+)\)|(\w+)\.(?:saturating_mul|wrapping_mul)\(lit:2\)|\((\w+)<<lit:1\))"


def rule_F27(prog):
    r = RuleResult("F27", "group_diff_ops starts a new group exactly when an equal run is longer than twice the radius: the "
                          "condition under which an Equal op is cut into a trailing and a leading context piece is "
                          "`len > 2 * n` (strictly greater, the whole run length against twice the radius)")
    for fn in prog.find("common::group_diff_ops"):
        bodies = [fn] + [g for g in _local_callees(prog, fn)]
        conds = []
        for g in bodies:
            lets = _lets(g)
            # the `if` (or match guard) whose taken branch builds DiffOp::Equal pieces
            for n in find_nodes(g.hir["body"], lambda n: n["k"] == "if"):
                if find_nodes(n["t"], lambda x: x["k"] == "struct" and str(x.get("adt", "")).endswith("DiffOp")) or \
                        find_nodes(n["t"], lambda x: x["k"] in ("call", "mcall") and any(
                            find_nodes(h.hir["body"], lambda y: y["k"] == "struct" and str(y.get("adt", "")).endswith("DiffOp"))
                            for h in [_call_target(prog, x)[0]] if h is not None and h.hir and h is not g)):
                    conds.append((g, origin_deep(n["c"], lets), n))
            for mn in find_nodes(g.hir["body"], lambda n: n["k"] == "match"):
                for a in mn["arms"]:
                    if a.get("guard") and find_nodes(a["body"], lambda x: x["k"] == "struct" and str(x.get("adt", "")).endswith("DiffOp") or
                                                     (x["k"] in ("call", "mcall"))):
                        conds.append((g, origin_deep(a["guard"], lets), a["guard"]))
        # keep comparisons only
        cmps = [(g, o, n) for g, o, n in conds if re.match(r"^\(.*(>=|<=|>|<).*\)$", o) or
                (_lin_cmp(n["c"] if n.get("k") == "if" else n, _lets(g)) or ("",))[0] == "gt"]
        r.instances += 1
        if not cmps:
            r.ob(False, "group_diff_ops: no split condition found")
            r.find(fn.path, "no-threshold", "group_diff_ops: the condition that starts a new group (a comparison guarding the cut of "
                   "an Equal op) was not found", file=fn.file, line=fn.line)
            continue
        bad = []
        for g, o, n in cmps:
            nf = _lin_cmp(n["c"] if n.get("k") == "if" else n, _lets(g))
            # len > 2 * n in any linear spelling: {len: 1, n: -2} > 0  (`len >= 2*n + 1`, `n + n < len`, `!(len <= n << 1)` ...)
            ok = bool(nf and nf[0] == "gt" and nf[2] == 0 and sorted(nf[1].values()) == [-2, 1])
            if not ok:
                bad.append((o, n.get("line", fn.line)))
        r.ob(not bad, "group_diff_ops split condition(s): %s" % [o for _, o, _ in cmps])
        if bad:
            r.find(fn.path, "threshold", "group_diff_ops cuts an equal run under the condition `%s`; a run must be cut exactly when "
                   "its length is strictly greater than twice the radius (`len > n * 2`)" % bad[0][0], file=fn.file, line=bad[0][1])
    return r


# ---------------------------------------------------------------- F28: the unified-diff range format distinguishes by length only
def rule_F28(prog):
    r = RuleResult("F28", "the `start,len` part of a hunk header is formatted by the length of the range alone: the cases "
                          "`len == 1` (start only) and `len == 0` (start moved to the line before the range) are tested as "
                          "such, with no additional condition")
    fns = [f for f in prog.user_fns() if f.name == "fmt" and f.impl and f.impl.get("trait") == "std::fmt::Display" and
           ty_head(f.impl["self_ty"]) == "udiff::UnifiedDiffHunkRange" and f.hir and f.hir.get("body")]
    for fn in fns:
        lets = _lets(fn)
        len_locals = set()
        for st in find_nodes(fn.hir["body"], lambda n: n.get("k") == "let" and isinstance(n.get("pat"), dict) and n["pat"].get("k") == "bind"):
            if st.get("init"):
                o = origin_deep(st["init"], lets)
                if "saturating_sub(" in o or re.match(r"^\(.*-.*\)$", o):
                    len_locals.add(st["pat"].get("name"))
        r.instances += 1
        bad = []
        for n in find_nodes(fn.hir["body"], lambda n: n["k"] == "if"):
            o = origin(n["c"])
            used = [l for l in len_locals if re.search(r"(?<![\w.])%s\b" % re.escape(l), o)]
            if not used:
                continue
            nf = _lin_cmp(n["c"], {})
            # `len == k` / `k == len` / `len != k` (branches swapped) / `len + 1 == 2` ...: one length, coefficient 1
            if not (nf and nf[0] in ("eq", "ne") and len(nf[1]) == 1 and list(nf[1].values()) == [1] and
                    list(nf[1])[0] in used and nf[2] in (0, 1)):
                bad.append((o, n.get("line", fn.line)))
        # the same decisions written as `match len { 0 => .., 1 => .., _ => .. }`: arms are single literals or the wildcard
        for mn in find_nodes(fn.hir["body"], lambda n: n["k"] == "match"):
            sc = unwrap(mn["scrut"])
            if not (isinstance(sc, dict) and sc.get("k") == "path" and sc.get("res", {}).get("name") in len_locals):
                continue
            for a in mn["arms"]:
                p_ = a["pat"]
                kind = p_.get("k")
                if a.get("guard") is not None or not (kind in ("wild", "bind") or (kind == "expr" and p_.get("lit") is not None)):
                    bad.append(("match arm `%s`%s" % (p_.get("src", kind), " with a guard" if a.get("guard") is not None else ""), p_.get("line", fn.line)))
        r.ob(not bad, "hunk range Display: length tests %s" % ("are plain equalities" if not bad else bad))
        if bad:
            r.find(fn.path, "range-format", "the hunk range is formatted under the condition `%s`: the unified format depends on "
                   "the length of the range only (`len == 1`: start alone; `len == 0`: the line before the range)" % bad[0][0],
                   file=fn.file, line=bad[0][1])
    return r


def _both_empty(c, lets, a, b, neg):
    """`a == 0 && b == 0` (or, negated, `a != 0 || b != 0` / `a > 0 || b > 0`): the other spelling of a + b == 0."""
    c = unwrap(c)
    if not (isinstance(c, dict) and c.get("k") == "binary" and c["op"] in ("&&", "||")):
        return False
    if (c["op"] == "&&") == bool(neg):
        return False
    want = "eq"
    seen = set()
    for side in (c["l"], c["r"]):
        nf = _lin_cmp(side, lets, negate=neg)
        if nf and nf[0] == "gt" and nf[2] == -1 and len(nf[1]) == 1 and list(nf[1].values()) == [-1]:
            nf = ("eq", {list(nf[1])[0]: 1}, 0)
        if not (nf and nf[0] == want and nf[2] == 0 and len(nf[1]) == 1 and list(nf[1].values()) == [1]):
            return False
        seen.add(list(nf[1])[0])
    return seen == {a, b}


# ---------------------------------------------------------------- F29: the degenerate case of the similarity ratio
def rule_F29(prog):
    r = RuleResult("F29", "get_diff_ratio returns the constant 1.0 only for two empty sequences: every condition under which it "
                          "returns a float literal tests the COMBINED length `old_len + new_len` against 0 (one empty side alone "
                          "has ratio 0, not 1)")
    for fn in prog.find("common::get_diff_ratio"):
        lets = _lets(fn)
        pn = [pp["pat"].get("name") for pp in fn.hir["params"]]
        if len(pn) < 3:
            continue
        a, b = pn[1], pn[2]
        r.instances += 1
        bad = []
        sites = []
        for n in find_nodes(fn.hir["body"], lambda n: n["k"] == "if"):
            def is_float_lit(x):
                x = unwrap(x)
                for _ in range(3):
                    if isinstance(x, dict) and x.get("k") == "block" and x["b"].get("expr") and not x["b"]["stmts"]:
                        x = unwrap(x["b"]["expr"])
                    elif isinstance(x, dict) and x.get("k") == "block" and not x["b"].get("expr") and len(x["b"]["stmts"]) == 1 and \
                            x["b"]["stmts"][0].get("k") in ("expr", "semi"):
                        x = unwrap(x["b"]["stmts"][0]["e"])
                if isinstance(x, dict) and x.get("k") == "ret":
                    x = unwrap(x.get("x"))
                return isinstance(x, dict) and x.get("k") == "lit" and re.match(r"^\d+\.\d*(_?f32|_?f64)?$", str(x.get("src", "")))
            branches = [(n["c"], n["t"], False)] + ([(n["c"], n["f"], True)] if n.get("f") else [])
            for c, br, neg in branches:
                if is_float_lit(br):
                    o = origin_deep(c, lets)
                    sites.append(o)
                    nf = _lin_cmp(c, lets, negate=neg)
                    # old_len + new_len == 0 in any linear spelling (`0 == a + b`, `!(a + b > 0)`, `a + b < 1`, else-branch of `!= 0`)
                    if nf and nf[0] == "gt" and nf[2] == -1 and all(v < 0 for v in nf[1].values()):
                        nf = ("eq", {k_: -v for k_, v in nf[1].items()}, 0)      # -(a+b) > -1  ==  a+b == 0 on unsigned
                    both_empty = _both_empty(c, lets, a, b, neg)
                    if not (both_empty or (nf and nf[0] == "eq" and nf[2] == 0 and nf[1] == {a: 1, b: 1})):
                        bad.append((o, n.get("line", fn.line)))
        r.ob(not bad, "get_diff_ratio: constant results under %s" % sites)
        if bad:
            r.find(fn.path, "ratio-degenerate", "get_diff_ratio returns a constant under `%s`; only `%s + %s == 0` makes the ratio "
                   "undefined -- with one side empty and the other not, the ratio is 0" % (bad[0][0], a, b), file=fn.file, line=bad[0][1])
    return r


# ---------------------------------------------------------------- F30: Patience looks for unique items in the whole requested ranges
def rule_F30(prog):
    r = RuleResult("F30", "Patience's anchors are the items unique within the WHOLE requested ranges: every `unique(seq, range)` call "
                          "of patience::diff_deadline gets the function's own range parameter of that sequence, unmodified (an item "
                          "that also occurs in a stripped common prefix/suffix is not unique)")
    for fn in prog.find("algorithms::patience::diff_deadline"):
        if not fn.hir or not fn.hir.get("body"):
            continue
        lets = _lets(fn)
        params = [pp["pat"] for pp in fn.hir["params"] if pp["pat"].get("k") == "bind"]
        pids = {pp["id"]: pp.get("name") for pp in params}
        ptypes = {pp.get("name"): str(pp.get("ty", "")) for pp in params}
        calls = [c for c in find_nodes(fn.hir["body"], lambda n: n["k"] == "call" and origin(n["f"]).rsplit("::", 1)[-1] == "unique")]
        modified = set()
        for n in find_nodes(fn.hir["body"], lambda n: n["k"] in ("assign", "assignop")):
            root = n["l"]
            while isinstance(root, dict) and root.get("k") in ("field", "index", "droptemps", "unary"):
                root = root.get("base") or root.get("x")
            if isinstance(root, dict) and root.get("k") == "path" and root.get("res", {}).get("id") in pids:
                modified.add(pids[root["res"]["id"]])
        for c in calls:
            if len(c["args"]) != 2:
                continue
            r.instances += 1
            seq = origin_deep(c["args"][0], lets)
            rng = re.sub(r"\.clone\(\)$", "", origin_deep(c["args"][1], lets))
            # the range parameter that goes with this sequence parameter: same `old`/`new` stem, or the parameter that follows it
            names = [pp.get("name") for pp in params]
            want = None
            if seq in names:
                i = names.index(seq)
                if i + 1 < len(names) and "Range" in ptypes.get(names[i + 1], ""):
                    want = names[i + 1]
            ok = want is not None and rng == want and want not in modified
            r.ob(ok, "%s: unique(%s, %s)" % (fn.path, seq, rng[:60]))
            if not ok:
                r.find(fn.path, "unique-range:%s" % seq,
                       "`unique(%s, %s)` does not look at the whole requested range `%s`%s: an item that occurs once in the "
                       "examined part and again outside it becomes an anchor although it is not unique" % (
                           seq, rng[:60], want or "?", " (the parameter is modified before)" if want in modified else ""),
                       file=fn.file, line=c["line"])
    return r


# ---------------------------------------------------------------- F31: the slide loops stop only when nothing can be shifted
def rule_F31(prog):
    r = RuleResult("F31", "a change slides as far as it can: in the (Insert|Delete, Equal) arms of shift_diff_ops_up/down every `break` "
                          "(and `return`) is reached only with the measured common suffix/prefix length known to be zero (else branch "
                          "of `len > 0`, then branch of `len == 0`, `0 =>` arm); after a non-zero step the loop measures again")
    for path in ("algorithms::compact::shift_diff_ops_up", "algorithms::compact::shift_diff_ops_down"):
        for fn in prog.find(path):
            if not fn.hir or not fn.hir.get("body"):
                continue
            lets = _lets(fn)
            seen_arms = set()
            for tags, arm, _ in _tag_pair_arms(fn):
                if not (tags[1] == "Equal" and tags[0] in ("Insert", "Delete")):
                    continue
                body = arm["body"]
                if id(body) in seen_arms:
                    continue
                seen_arms.add(id(body))
                # the locals bound to the measured length in this arm
                measured = set()
                for st in find_nodes(body, lambda n: n.get("k") == "let" and isinstance(n.get("pat"), dict) and n["pat"].get("k") == "bind" and n.get("init")):
                    init = unwrap(st["init"])
                    if isinstance(init, dict) and init.get("k") == "call" and origin(init["f"]).rsplit("::", 1)[-1] in ("common_suffix_len", "common_prefix_len"):
                        measured.add(st["pat"]["id"])
                    # the same measurement written inline: `a.zip(b).take_while(|..| new[j] == old[i]).count()`
                    if isinstance(init, dict) and init.get("k") == "mcall" and init["name"] == "count" and \
                            find_nodes(init["recv"], lambda n: n["k"] == "mcall" and n["name"] == "take_while") and \
                            find_nodes(init["recv"], lambda n: n["k"] == "mcall" and n["name"] == "zip"):
                        measured.add(st["pat"]["id"])
                if not measured:
                    continue
                r.instances += 1
                bad = []

                def is_measured(e):
                    e = unwrap(e)
                    hops = 0
                    while isinstance(e, dict) and e.get("k") == "path" and e.get("res", {}).get("k") == "local" and hops < 4:
                        if e["res"]["id"] in measured:
                            return True
                        nxt = lets.get(e["res"]["id"])
                        if nxt is None:
                            return False
                        e = unwrap(nxt)
                        hops += 1
                    return False

                def zero_known(cond, branch_is_then):
                    """does taking this branch of `if cond` establish measured == 0 ?"""
                    c = unwrap(cond)
                    if not isinstance(c, dict):
                        return False
                    if c.get("k") == "unary" and c.get("op") == "Not":
                        return zero_known(c["x"], not branch_is_then)
                    if c.get("k") == "binary" and c["op"] == "&&" and branch_is_then:
                        return zero_known(c["l"], True) or zero_known(c["r"], True)
                    if c.get("k") == "binary" and c["op"] == "||" and not branch_is_then:
                        return zero_known(c["l"], False) or zero_known(c["r"], False)
                    if c.get("k") == "binary" and c["op"] in (">", "<", ">=", "<=", "==", "!="):
                        l, rr = unwrap(c["l"]), unwrap(c["r"])
                        def lit(x):
                            return isinstance(x, dict) and x.get("k") == "lit" and str(x.get("src", "")).split("_")[0].isdigit() and int(str(x["src"]).split("_")[0])
                        def islit(x, v):
                            return isinstance(x, dict) and x.get("k") == "lit" and re.match(r"^%d(_?usize)?$" % v, str(x.get("src", "")))
                        op = c["op"]
                        if is_measured(rr) and not is_measured(l):
                            l, rr = rr, l
                            op = {">": "<", "<": ">", ">=": "<=", "<=": ">=", "==": "==", "!=": "!="}[op]
                        if not is_measured(l):
                            return False
                        if op == ">" and islit(rr, 0) or op == "!=" and islit(rr, 0) or op == ">=" and islit(rr, 1):
                            return not branch_is_then
                        if op == "==" and islit(rr, 0) or op == "<" and islit(rr, 1) or op == "<=" and islit(rr, 0):
                            return branch_is_then
                    return False

                def walk(n, zero):
                    if isinstance(n, list):
                        for x in n:
                            walk(x, zero)
                        return
                    if not isinstance(n, dict):
                        return
                    k = n.get("k")
                    if k in ("closure", "loop"):
                        return
                    if k in ("break", "ret") and not zero:
                        bad.append(n.get("line", arm["pat"].get("line", fn.line)))
                        return
                    if k == "if":
                        walk(n["c"], zero)
                        walk(n["t"], zero or zero_known(n["c"], True))
                        if n.get("f") is not None:
                            walk(n["f"], zero or zero_known(n["c"], False))
                        return
                    if k == "match" and is_measured(n.get("scrut")):
                        for a in n["arms"]:
                            p_ = a["pat"]
                            z = isinstance(p_, dict) and p_.get("k") == "expr" and re.match(r"^0(_?usize)?$", str(p_.get("lit", "")))
                            walk(a["body"], zero or bool(z))
                        return
                    for v in n.values():
                        if isinstance(v, (dict, list)):
                            walk(v, zero)

                walk(body, False)
                r.ob(not bad, "%s (%s, Equal): every exit of the slide loop knows the measured length is 0: %s" % (fn.name, tags[0], not bad))
                if bad:
                    r.find(fn.path, "early-exit:%s" % tags[0],
                           "the (%s, Equal) arm of %s leaves the slide loop (line %d) without knowing that the measured common "
                           "length is 0: after a partial step the next comparison may still succeed, so the change does not reach "
                           "its final position" % (tags[0], fn.name, bad[0]), file=fn.file, line=bad[0])
    return r


# ---------------------------------------------------------------- F32: a slice is filed under the index of the string it was cut from
def rule_F32(prog):
    r = RuleResult("F32", "a slice is filed under the index of the string it was cut from: where a pair `(i, strings[j].slice(..))` "
                          "is pushed or returned, i and j are the same value (MultiLookup::get_original_slices: a run that ends at a "
                          "line boundary belongs to the line it came from)")
    for fn in prog.user_fns():
        if not fn.hir or not fn.hir.get("body") or fn.kind == "Closure" or not fn.module.startswith("text"):
            continue
        for tup in find_nodes(fn.hir["body"], lambda n: n["k"] == "tup" and len(n["es"]) == 2):
            b = unwrap(tup["es"][1])
            if not (isinstance(b, dict) and b.get("k") == "mcall" and b["name"] == "slice"):
                continue
            recv = unwrap(b["recv"])
            while isinstance(recv, dict) and recv.get("k") in ("addrof", "unary") and recv.get("x") is not None:
                recv = unwrap(recv["x"])
            if not (isinstance(recv, dict) and recv.get("k") == "index"):
                continue
            a = unwrap(tup["es"][0])
            if not (isinstance(a, dict) and str(a.get("ty", "")) == "usize"):
                continue
            r.instances += 1
            ia, ij = origin(a), origin(recv["idx"])
            ok = ia == ij
            r.ob(ok, "%s: (%s, %s[%s].slice(..))" % (fn.path, ia, origin(recv["base"]), ij))
            if not ok:
                r.find(fn.path, "slice-filed-under:%s" % ia,
                       "the pair `(%s, %s[%s].slice(..))` files a piece of string `%s` under index `%s`: the piece is attributed "
                       "to another line than the one it was cut from" % (ia, origin(recv["base"]), ij, ij, ia), file=fn.file, line=tup.get("line", fn.line))
    return r


# ---------------------------------------------------------------- F33: IdentifyDistinct numbers both sides from one counter and one map
def rule_F33(prog):
    r = RuleResult("F33", "IdentifyDistinct::new interns the items of both sequences into ONE map with ids from ONE counter: the "
                          "function creates a single HashMap; every `c = c + step` in it (closures included) advances the same "
                          "local, which is a `let mut` of the function initialised once, from `Default::default()`; equal ids "
                          "therefore mean equal items across and within the sides")
    for fn in prog.user_fns():
        if fn.kind == "Closure" or fn.name != "new" or not fn.impl or "IdentifyDistinct" not in str(fn.impl.get("self_ty")) or not fn.hir or not fn.hir.get("body"):
            continue
        body = fn.hir["body"]
        lets = _lets(fn)
        r.instances += 1
        problems = []
        maps = [n for n in find_nodes(body, lambda n: n["k"] == "call" and re.match(r"^std::collections::(HashMap|BTreeMap)<", str(n.get("ty", ""))) and
                                      origin(n["f"]).rsplit("::", 1)[-1] in ("new", "with_capacity", "default", "with_hasher", "with_capacity_and_hasher"))]
        if len(maps) != 1:
            problems.append("%d maps are created (one shared map is needed so that an item of `new` finds the id of the same item of `old`)" % len(maps))
        incs = []
        for n in find_nodes(body, lambda n: n["k"] in ("assign", "assignop")):
            lhs = unwrap(n["l"])
            if n["k"] == "assignop":
                if n.get("op") in ("+=", "+"):
                    incs.append((lhs, n))
                continue
            rhs = unwrap(n["r"])
            if isinstance(rhs, dict) and rhs.get("k") == "binary" and rhs["op"] == "+":
                lo = origin(lhs)
                if lo in (origin_deep(rhs["l"], lets), origin_deep(rhs["r"], lets), origin(rhs["l"]), origin(rhs["r"])):
                    incs.append((lhs, n))
        # only counters of the id type (not usize offsets)
        def is_id_ty(e):
            t = str(unwrap(e).get("ty", ""))
            return t in ("Int", "&mut Int") or t.endswith("Int")
        incs = [(l, n) for l, n in incs if is_id_ty(l) or is_id_ty(n.get("r", {})) ]
        places = {}
        for l, n in incs:
            places.setdefault(origin(l), []).append(n)
        if not incs:
            problems.append("no id counter found (`next_id = next_id + step`)")
        elif len(places) != 1:
            problems.append("ids come from %d different counters (%s)" % (len(places), ", ".join(sorted(places))))
        else:
            (pl, ns), = places.items()
            root = unwrap(ns[0]["l"])
            while isinstance(root, dict) and root.get("k") in ("unary", "field", "droptemps") and (root.get("x") is not None or root.get("base") is not None):
                root = unwrap(root.get("x") if root.get("x") is not None else root.get("base"))
            res = root.get("res", {}) if isinstance(root, dict) and root.get("k") == "path" else {}
            init = lets.get(res.get("id")) if res.get("k") == "local" else None
            if init is None:
                problems.append("the id counter `%s` is not a `let mut` of the function initialised in place (a counter handed "
                                "around as closure state can be restarted)" % pl)
            else:
                io = origin(init)
                if not re.search(r"(^|::)default\(\)$", io):
                    problems.append("the id counter `%s` starts from `%s`, not from Default::default()" % (pl, io[:60]))
        r.ob(not problems, "%s: one map, one counter: %s" % (fn.path, problems or "ok"))
        if problems:
            # no counter in the function body at all (the interning moved into a helper type or function): the rule has no
            # anchor here -- undecided, not a violation
            lost = (not incs) and len(maps) <= 1
            r.find(fn.path, "id-counter", "IdentifyDistinct::new: " + "; ".join(problems), file=fn.file, line=fn.line, undecided=lost)
    return r


# ---------------------------------------------------------------- F34: an inline change misses its newline iff its LAST segment does
def rule_F34(prog):
    r = RuleResult("F34", "InlineChange::missing_newline is decided by the last segment of the line, whatever its emphasis: the "
                          "function (with its private helpers and closures) asks `ends_with_newline` of `values.last()` -- it never "
                          "selects a segment by a predicate (find / filter / position / skip_while ..) and never reads the "
                          "emphasis flag")
    SELECT = {"find", "find_map", "rfind", "filter", "filter_map", "position", "rposition", "skip_while", "take_while",
              "max_by", "max_by_key", "min_by", "min_by_key", "nth", "nth_back", "first", "skip", "step_by"}
    for fn in prog.user_fns():
        if fn.kind == "Closure" or fn.name != "missing_newline" or not fn.impl or "InlineChange" not in str(fn.impl.get("self_ty")):
            continue
        if not fn.hir or not fn.hir.get("body"):
            continue
        r.instances += 1
        bodies = [fn.hir["body"]] + [g.hir["body"] for g in _local_callees(prog, fn) if g.hir and g.hir.get("body")]
        problems = []
        asks = 0
        for b in bodies:
            for n in find_nodes(b, lambda n: n["k"] in ("mcall", "call")):
                nm = n["name"] if n["k"] == "mcall" else origin(n["f"]).rsplit("::", 1)[-1]
                if nm == "ends_with_newline":
                    asks += 1
                if nm in SELECT:
                    problems.append("a segment is selected with `%s`" % nm)
            # the emphasis flag: field 0 of a (bool, &T) element, or a bool binding of a tuple pattern over such an element
            for n in find_nodes(b, lambda n: n["k"] == "field" and n.get("name") == "0" and str(n.get("ty", "")) == "bool"):
                problems.append("the emphasis flag is read")
            for n in find_nodes(b, lambda n: n.get("k") == "bind" and str(n.get("ty", "")) == "bool" and not str(n.get("name", "")).startswith("_")):
                problems.append("the emphasis flag is bound (`%s`)" % n.get("name"))
        if asks == 0:
            problems.append("`ends_with_newline` is never asked")
        problems = sorted(set(problems))
        r.ob(not problems, "%s: %s" % (fn.path, problems or "asks ends_with_newline of the last segment"))
        if problems:
            r.find(fn.path, "missing-newline-segment", "InlineChange::missing_newline: " + "; ".join(problems) +
                   " -- a line whose last segment is emphasised and lacks the terminator would not be reported", file=fn.file, line=fn.line)
    return r


# ---------------------------------------------------------------- premises of reviewed exceptions (spec.EXCEPTIONS)
def premise_delete_arm_suffix_on_empty_range(prog, finding=None):
    """In shift_diff_ops_up's (Delete, Equal) arm every common_suffix_len call measures against the new range of the
    Delete op itself (always empty, so the result is 0 and the `suffix_len != 0` branch is dead) -- and the excepted
    finding sits inside that arm (the same expression in another arm is live code)."""
    found = 0
    for fn in prog.find("algorithms::compact::shift_diff_ops_up"):
        lets = _lets(fn)
        for mnode in find_nodes(fn.hir["body"], lambda n: n["k"] == "match"):
            sc = unwrap(mnode["scrut"])
            if not (isinstance(sc, dict) and sc.get("k") == "tup" and len(sc["es"]) == 2):
                continue
            first = unwrap(sc["es"][0])
            if not (isinstance(first, dict) and first.get("k") == "mcall" and first["name"] == "tag"):
                continue
            who = origin_deep(first["recv"], lets)
            for tags, arm, mn in _tag_pair_arms(fn):
                if mn is not mnode or tags != ("Delete", "Equal"):
                    continue
                calls = find_nodes(arm["body"], lambda n: n["k"] == "call" and origin(n["f"]).endswith("common_suffix_len"))
                if not calls:
                    return False
                for c in calls:
                    if len(c["args"]) != 4 or origin_deep(c["args"][3], lets) != who + ".new_range()":
                        return False
                    found += 1
                if finding is not None and finding.line:
                    lines = set()
                    walk_hir(arm["body"], lambda n: lines.add(n.get("line")) if isinstance(n, dict) and n.get("line") else None)
                    if finding.line not in lines:
                        return False
                    # ... and in no arm body that also serves another tag pair (a merged `(Insert, Equal) | (Delete, Equal)` arm
                    # runs the same expression with a non-empty new range)
                    for tags2, arm2, mn2 in _tag_pair_arms(fn):
                        if mn2 is not mnode or tags2 == ("Delete", "Equal"):
                            continue
                        lines2 = set()
                        walk_hir(arm2["body"], lambda n: lines2.add(n.get("line")) if isinstance(n, dict) and n.get("line") else None)
                        if finding.line in lines2:
                            return False
    return found > 0


PREMISES = {"delete_arm_suffix_on_empty_range": premise_delete_arm_suffix_on_empty_range}
