"""Rule registry: rule id -> function(Program) -> RuleResult; positive controls on /verif/fixtures."""
from . import order, effects, proto, deadline, guard, coord

RULES = {
    "G1": order.rule_G1,
    "G2": order.rule_G2,
    "D1": effects.rule_D1,
    "D2": effects.rule_D2,
    "D3": effects.rule_D3,
    "D4": effects.rule_D4,
    "B1": proto.rule_B1,
    "B2": proto.rule_B2,
    "B3": proto.rule_B3,
    "B4": proto.rule_B4,
    "B5": proto.rule_B5,
    "E1": guard.rule_E1,
    "A1": coord.rule_A1, "A2": coord.rule_A2, "A3": coord.rule_A3, "A4": coord.rule_A4,
    "A5": coord.rule_A5, "A6": coord.rule_A6, "A7": coord.rule_A7,
    "C1": deadline.rule_C1,
    "C2": deadline.rule_C2,
    "C3": deadline.rule_C3,
    "C4": deadline.rule_C4,
    "C5": deadline.rule_C5,
}

CONTROLS = []
