"""Rule registry: rule id -> function(Program) -> RuleResult; positive controls on /verif/fixtures."""
from . import order, effects, proto, deadline, guard, coord, tables, cursor

RULES = {
    "G1": order.rule_G1,
    "G2": order.rule_G2,
    "G3": order.rule_G3,
    "G5": order.rule_G5,
    "G6": order.rule_G6,
    "G7": order.rule_G7,
    "G8": order.rule_G8, "G9": order.rule_G9, "G10": order.rule_G10, "G11": order.rule_G11, "G12": order.rule_G12, "G13": order.rule_G13, "B8": proto.rule_B8,
    "D1": effects.rule_D1,
    "D2": effects.rule_D2,
    "D3": effects.rule_D3,
    "D4": effects.rule_D4,
    "B1": proto.rule_B1,
    "B2": proto.rule_B2,
    "B3": proto.rule_B3,
    "B4": proto.rule_B4,
    "B5": proto.rule_B5,
    "B6": proto.rule_B6,
    "B7": proto.rule_B7,
    "E1": guard.rule_E1, "E2": cursor.rule_E2, "E3": cursor.rule_E3, "E5": cursor.rule_E5, "E6": cursor.rule_E6, "E7": cursor.rule_E7, "E8": cursor.rule_E8, "E9": cursor.rule_E9, "E10": cursor.rule_E10,
    "A1": coord.rule_A1, "A2": coord.rule_A2, "A3": coord.rule_A3, "A4": coord.rule_A4,
    "A5": coord.rule_A5, "A6": coord.rule_A6, "A7": coord.rule_A7, "A8": coord.rule_A8, "A9": coord.rule_A9, "A10": coord.rule_A10, "A11": coord.rule_A11,
    "F1": tables.rule_F1, "F2": tables.rule_F2, "F3": tables.rule_F3, "F4": tables.rule_F4, "F5": tables.rule_F5,
    "F6": tables.rule_F6, "F7": tables.rule_F7, "F8": tables.rule_F8, "F9": tables.rule_F9, "F10": tables.rule_F10, "F11": tables.rule_F11, "F12": tables.rule_F12, "F13": tables.rule_F13, "F14": tables.rule_F14,
    "F15": tables.rule_F15, "F16": tables.rule_F16, "F17": tables.rule_F17, "F18": tables.rule_F18, "F19": tables.rule_F19, "F20": tables.rule_F20, "F21": tables.rule_F21, "F22": tables.rule_F22, "F23": tables.rule_F23, "F24": tables.rule_F24, "F25": tables.rule_F25, "F26": tables.rule_F26, "F27": tables.rule_F27, "F28": tables.rule_F28, "F29": tables.rule_F29, "F30": tables.rule_F30, "F31": tables.rule_F31, "F32": tables.rule_F32, "F33": tables.rule_F33, "F34": tables.rule_F34,
    "C1": deadline.rule_C1,
    "C2": deadline.rule_C2,
    "C3": deadline.rule_C3,
    "C4": deadline.rule_C4,
    "C5": deadline.rule_C5,
    "C6": deadline.rule_C6,
}



def _fires(rule_fn, fn_part, key_part=None, silent_fn=None, opts=False):
    """Control: the rule reports a finding in the known-bad fixture function (and none in its good twin)."""
    def ctl(fx):
        res = rule_fn(fx, {"tier": "quick"}) if getattr(rule_fn, "wants_opts", False) else rule_fn(fx)
        hit = [f for f in res.findings if fn_part in f.fn and (key_part is None or key_part in f.key)]
        if silent_fn is not None and any(silent_fn in f.fn for f in res.findings):
            return False
        return bool(hit)
    return ctl


CONTROLS = [
    {"name": "G1-swap-without-rewrite", "rule": "G1", "fn": _fires(order.rule_G1, "g1_bad_swap", silent_fn="g1_good_swap")},
    {"name": "D2-unsorted-hash-iteration", "rule": "D2", "fn": _fires(effects.rule_D2, "d2_bad_unsorted", silent_fn="d2_good_sorted")},
    {"name": "D3-clock-outside-deadline-support", "rule": "D3", "fn": _fires(effects.rule_D3, "d3_bad_clock")},
    {"name": "D4-item-ordering", "rule": "D4", "fn": _fires(effects.rule_D4, "d4_bad_order")},
    {"name": "B1-let-underscore", "rule": "B1", "fn": _fires(proto.rule_B1, "b1_bad_ignored")},
    {"name": "B1-dot-ok", "rule": "B1", "fn": _fires(proto.rule_B1, "b1_bad_ok")},
    {"name": "B2-call-after-error", "rule": "B2", "fn": _fires(proto.rule_B2, "b2_bad_after_error")},
    {"name": "B3-finish-twice", "rule": "B3", "fn": _fires(proto.rule_B3, "algorithms::lcs::diff")},
    {"name": "E1-unguarded-length", "rule": "E1", "fn": _fires(guard.rule_E1, "e1_a1_bad")},
    {"name": "A1-literal-zero-position", "rule": "A1", "fn": _fires(coord.rule_A1, "e1_a1_bad")},
    {"name": "A2-relative-index", "rule": "A2", "fn": _fires(coord.rule_A2, "a2_bad_index")},
    {"name": "A4-mixed-range", "rule": "A4", "fn": _fires(coord.rule_A4, "a2_bad_index")},
    {"name": "C1-none-deadline", "rule": "C1", "fn": _fires(deadline.rule_C1, "c1_bad_carrier")},
    {"name": "C3-unprobed-nest", "rule": "C3", "fn": _fires(deadline.rule_C3, "c1_callee")},
    {"name": "C5-branch-on-deadline", "rule": "C5", "fn": _fires(deadline.rule_C5, "c1_bad_carrier")},
    {"name": "A8-one-sided-advance", "rule": "A8", "fn": _fires(coord.rule_A8, "a8_bad_lockstep")},
    {"name": "G7-absorb-untested", "rule": "G7", "fn": _fires(order.rule_G7, "g7_bad_absorb")},
    {"name": "F20-consuming-lookahead", "rule": "F20", "fn": _fires(tables.rule_F20, "f20_bad_lookahead")},
    {"name": "F22-partial-reinit", "rule": "F22", "fn": _fires(tables.rule_F22, "f22_bad_reset")},
    {"name": "F24-stale-width", "rule": "F24", "fn": _fires(tables.rule_F24, "f24_bad_width")},
    {"name": "F26-offset-bookkeeping", "rule": "F26", "fn": _fires(tables.rule_F26, "f26_bad_offsets")},
    {"name": "A11-side-pattern", "rule": "A11", "fn": _fires(coord.rule_A11, "a11_bad_pattern")},
    {"name": "E6-stale-position", "rule": "E6", "fn": _fires(cursor.rule_E6, "e6_bad_stale_position")},
    {"name": "B8-buffer-dropped", "rule": "B8", "fn": _fires(proto.rule_B8, "b8_bad_filter_drops", silent_fn="b8_good_extend")},
    {"name": "G12-reversed-zip", "rule": "G12", "fn": _fires(order.rule_G12, "g12_bad_reversed_zip", silent_fn="g12_good_reversed_zip")},
    {"name": "G9-dedup-by-first-arg", "rule": "G9", "fn": _fires(order.rule_G9, "g9_bad_dedup", silent_fn="g9_good_dedup")},
    {"name": "E7-position-reused", "rule": "E7", "fn": _fires(cursor.rule_E7, "e7_bad_position_reused")},
    {"name": "E8-carried-position", "rule": "E8", "fn": _fires(cursor.rule_E8, "e8_bad_carried_position", silent_fn="e8_good_carried_position")},
    {"name": "E5-cursor-base", "rule": "E5", "fn": _fires(cursor.rule_E5, "e5_bad_cursor_base")},
    {"name": "F23-tag-blocks-differ", "rule": "F23", "fn": _fires(tables.rule_F23, "ChangesIter")},
]
