"""Rule registry: rule id -> function(Program) -> RuleResult; positive controls on /verif/fixtures."""
from . import order, effects

RULES = {
    "G1": order.rule_G1,
    "G2": order.rule_G2,
    "D1": effects.rule_D1,
    "D2": effects.rule_D2,
    "D3": effects.rule_D3,
    "D4": effects.rule_D4,
}

CONTROLS = []
