"""Rule registry: rule id -> function(Program) -> RuleResult; positive controls on /verif/fixtures."""
from . import order, effects, proto

RULES = {
    "G1": order.rule_G1,
    "G2": order.rule_G2,
    "D1": effects.rule_D1,
    "D2": effects.rule_D2,
    "D3": effects.rule_D3,
    "D4": effects.rule_D4,
    "B1": proto.rule_B1,
    "B2": proto.rule_B2,
    "B3": proto.rule_B3,
    "B4": proto.rule_B4,
    "B5": proto.rule_B5,
}

CONTROLS = []
