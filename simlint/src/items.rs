use crate::json::J;
use crate::util::{self, ty_json};
use rustc_hir::def::DefKind;
use rustc_middle::ty::{self, TyCtxt};

pub fn export_items<'tcx>(tcx: TyCtxt<'tcx>) -> J {
    let mut adts = Vec::new();
    let mut impls = Vec::new();
    let mut traits = Vec::new();
    for ldid in tcx.hir_crate_items(()).definitions() {
        let did = ldid.to_def_id();
        match tcx.def_kind(did) {
            DefKind::Struct | DefKind::Enum => {
                let def = tcx.adt_def(did);
                let (file, line) = util::file_line(tcx, tcx.def_span(did));
                let mut variants = Vec::new();
                for v in def.variants() {
                    let mut fields = Vec::new();
                    for f in &v.fields {
                        let t = tcx.type_of(f.did).instantiate_identity().skip_norm_wip();
                        fields.push(obj! {
                            "name": J::s(f.name.to_string()),
                            "ty": ty_json(tcx, t),
                            "ty_str": J::s(t.to_string()),
                        });
                    }
                    variants.push(obj! {"name": J::s(v.name.to_string()), "fields": J::Arr(fields)});
                }
                let generics = tcx.generics_of(did);
                adts.push(obj! {
                    "path": J::s(tcx.def_path_str(did)),
                    "kind": J::s(if def.is_enum() { "enum" } else { "struct" }),
                    "file": J::s(file),
                    "line": J::n(line),
                    "generics": J::Arr(generics.own_params.iter()
                        .filter(|p| matches!(p.kind, ty::GenericParamDefKind::Type { .. }))
                        .map(|p| J::s(p.name.to_string())).collect()),
                    "variants": J::Arr(variants),
                });
            }
            DefKind::Impl { of_trait } => {
                let self_ty = tcx.type_of(did).instantiate_identity().skip_norm_wip();
                let (file, line) = util::file_line(tcx, tcx.def_span(did));
                let tr = if of_trait {
                    let trf = tcx.impl_trait_ref(did).instantiate_identity().skip_norm_wip();
                    obj! {
                        "path": J::s(tcx.def_path_str(trf.def_id)),
                        "args": util::generic_args_json(tcx, trf.args),
                    }
                } else {
                    J::Null
                };
                let mut methods = Vec::new();
                for item in tcx.associated_items(did).in_definition_order() {
                    if item.is_fn() {
                        methods.push(obj! {
                            "name": J::s(item.name().to_string()),
                            "path": J::s(tcx.def_path_str(item.def_id)),
                        });
                    }
                }
                impls.push(obj! {
                    "path": J::s(tcx.def_path_str(did)),
                    "file": J::s(file),
                    "line": J::n(line),
                    "trait": tr,
                    "self_ty": ty_json(tcx, self_ty),
                    "self_ty_str": J::s(self_ty.to_string()),
                    "methods": J::Arr(methods),
                });
            }
            DefKind::Trait => {
                let mut methods = Vec::new();
                for item in tcx.associated_items(did).in_definition_order() {
                    if item.is_fn() {
                        methods.push(obj! {
                            "name": J::s(item.name().to_string()),
                            "path": J::s(tcx.def_path_str(item.def_id)),
                            "has_default": J::Bool(item.defaultness(tcx).has_value()),
                        });
                    }
                }
                traits.push(obj! {
                    "path": J::s(tcx.def_path_str(did)),
                    "methods": J::Arr(methods),
                });
            }
            _ => {}
        }
    }
    obj! {
        "adts": J::Arr(adts),
        "impls": J::Arr(impls),
        "traits": J::Arr(traits),
    }
}
