//! Minimal JSON value + serializer (the driver has no cargo dependencies).

#[derive(Clone, Debug)]
pub enum J {
    Null,
    Bool(bool),
    Num(i64),
    Str(String),
    Arr(Vec<J>),
    Obj(Vec<(&'static str, J)>),
}

impl J {
    pub fn s<S: Into<String>>(s: S) -> J {
        J::Str(s.into())
    }
    pub fn n<N: TryInto<i64>>(n: N) -> J {
        J::Num(n.try_into().ok().unwrap_or(-1))
    }
    pub fn opt(o: Option<J>) -> J {
        o.unwrap_or(J::Null)
    }
    pub fn write(&self, out: &mut String) {
        match self {
            J::Null => out.push_str("null"),
            J::Bool(b) => out.push_str(if *b { "true" } else { "false" }),
            J::Num(n) => out.push_str(&n.to_string()),
            J::Str(s) => write_str(s, out),
            J::Arr(v) => {
                out.push('[');
                for (i, x) in v.iter().enumerate() {
                    if i > 0 {
                        out.push(',');
                    }
                    x.write(out);
                }
                out.push(']');
            }
            J::Obj(v) => {
                out.push('{');
                for (i, (k, x)) in v.iter().enumerate() {
                    if i > 0 {
                        out.push(',');
                    }
                    write_str(k, out);
                    out.push(':');
                    x.write(out);
                }
                out.push('}');
            }
        }
    }
}

fn write_str(s: &str, out: &mut String) {
    out.push('"');
    for c in s.chars() {
        match c {
            '"' => out.push_str("\\\""),
            '\\' => out.push_str("\\\\"),
            '\n' => out.push_str("\\n"),
            '\r' => out.push_str("\\r"),
            '\t' => out.push_str("\\t"),
            c if (c as u32) < 0x20 => out.push_str(&format!("\\u{:04x}", c as u32)),
            c => out.push(c),
        }
    }
    out.push('"');
}

#[macro_export]
macro_rules! obj {
    ($($k:literal : $v:expr),* $(,)?) => {
        $crate::json::J::Obj(vec![$(($k, $v)),*])
    };
}
