//! simlint: rustc_private driver that exports the *resolved program* of the
//! crate under analysis (type-checked HIR with resolutions, MIR with resolved
//! callees, items/impls tables) as one JSON fact file per rustc process.
//!
//! The repository-specific rules live in /verif/engines (python) and are
//! evaluated over these facts; the driver itself decides nothing.
//!
//! Invocation: as RUSTC_WRAPPER / RUSTC_WORKSPACE_WRAPPER (argv[1] = rustc).
//!   SIMLINT_OUT_DIR   directory for fact files (one `<crate>.json` per crate)
//!   SIMLINT_CRATES    comma separated crate names to export (default: similar)
#![feature(rustc_private)]
#![allow(unused_imports, unused_variables, dead_code)]

extern crate rustc_abi;
extern crate rustc_ast;
extern crate rustc_driver;
extern crate rustc_hir;
extern crate rustc_interface;
extern crate rustc_middle;
extern crate rustc_session;
extern crate rustc_span;

#[macro_use]
mod json;
mod hirdump;
mod items;
mod mirdump;
mod util;

use json::J;
use rustc_driver::Compilation;
use rustc_interface::interface::Compiler;
use rustc_middle::ty::TyCtxt;

struct Cb {
    crates: Vec<String>,
    out_dir: String,
}

impl rustc_driver::Callbacks for Cb {
    fn after_analysis<'tcx>(&mut self, _compiler: &Compiler, tcx: TyCtxt<'tcx>) -> Compilation {
        let krate = tcx.crate_name(rustc_hir::def_id::LOCAL_CRATE).to_string();
        if !self.crates.iter().any(|c| *c == krate) {
            return Compilation::Continue;
        }
        let facts = export(tcx, &krate);
        let mut s = String::with_capacity(1 << 22);
        facts.write(&mut s);
        let path = format!("{}/{}.json", self.out_dir, krate);
        // one write per process
        std::fs::write(&path, s).expect("simlint: cannot write fact file");
        Compilation::Continue
    }
}

fn export<'tcx>(tcx: TyCtxt<'tcx>, krate: &str) -> J {
    let mut fns = Vec::new();
    for ldid in tcx.hir_body_owners() {
        let did = ldid.to_def_id();
        use rustc_hir::def::DefKind;
        match tcx.def_kind(did) {
            DefKind::Fn | DefKind::AssocFn | DefKind::Closure => {}
            _ => continue,
        }
        fns.push(export_fn(tcx, ldid));
    }
    let cfgs: Vec<J> = {
        let mut v: Vec<String> = tcx
            .sess
            .config
            .iter()
            .filter_map(|(k, val)| {
                if k.as_str() == "feature" {
                    val.map(|s| s.to_string())
                } else {
                    None
                }
            })
            .collect();
        v.sort();
        v.into_iter().map(J::s).collect()
    };
    obj! {
        "crate": J::s(krate),
        "features": J::Arr(cfgs),
        "fns": J::Arr(fns),
        "items": items::export_items(tcx),
    }
}

fn export_fn<'tcx>(tcx: TyCtxt<'tcx>, ldid: rustc_hir::def_id::LocalDefId) -> J {
    use rustc_hir::def::DefKind;
    let did = ldid.to_def_id();
    let kind = tcx.def_kind(did);
    let span = tcx.def_span(did);
    let (file, line) = util::file_line(tcx, span);
    let mut o: Vec<(&'static str, J)> = vec![
        ("path", J::s(tcx.def_path_str(did))),
        ("kind", J::s(format!("{:?}", kind))),
        ("file", J::s(file)),
        ("line", J::n(line)),
    ];
    if kind != DefKind::Closure {
        o.push(("vis_public", J::Bool(tcx.visibility(did).is_public())));
        // impl / trait container
        let parent = tcx.parent(did);
        match tcx.def_kind(parent) {
            DefKind::Impl { of_trait } => {
                let self_ty = tcx.type_of(parent).instantiate_identity().skip_norm_wip();
                let tr = if of_trait {
                    let trf = tcx.impl_trait_ref(parent).instantiate_identity().skip_norm_wip();
                    J::s(tcx.def_path_str(trf.def_id))
                } else {
                    J::Null
                };
                o.push((
                    "impl",
                    obj! {
                        "path": J::s(tcx.def_path_str(parent)),
                        "trait": tr,
                        "self_ty": util::ty_json(tcx, self_ty),
                        "self_ty_str": J::s(self_ty.to_string()),
                    },
                ));
            }
            DefKind::Trait => {
                o.push(("trait_default_of", J::s(tcx.def_path_str(parent))));
            }
            _ => {}
        }
        o.push(("name", J::s(tcx.item_name(did).to_string())));
        let sig = tcx.fn_sig(did).instantiate_identity().skip_norm_wip().skip_binder();
        o.push((
            "sig",
            obj! {
                "inputs": J::Arr(sig.inputs().iter().map(|t| util::ty_json(tcx, *t)).collect()),
                "inputs_str": J::Arr(sig.inputs().iter().map(|t| J::s(t.to_string())).collect()),
                "output": util::ty_json(tcx, sig.output()),
                "output_str": J::s(sig.output().to_string()),
            },
        ));
        let generics = tcx.generics_of(did);
        let mut gnames = Vec::new();
        let mut g = Some(generics);
        let mut all: Vec<(u32, String)> = Vec::new();
        while let Some(gg) = g {
            for p in &gg.own_params {
                all.push((p.index, p.name.to_string()));
            }
            g = gg.parent.map(|p| tcx.generics_of(p));
        }
        all.sort();
        for (_, n) in all {
            gnames.push(J::s(n));
        }
        o.push(("generics", J::Arr(gnames)));
        // trait bounds on type parameters (own + parent): [{"param": name, "index": i, "trait": path}]
        let mut bounds = Vec::new();
        let preds = tcx.predicates_of(did).instantiate_identity(tcx);
        for (clause, _) in preds {
            let clause = clause.skip_norm_wip();
            if let Some(tp) = clause.as_trait_clause() {
                let tp = tp.skip_binder();
                if let rustc_middle::ty::Param(p) = tp.self_ty().kind() {
                    bounds.push(obj! {
                        "param": J::s(p.name.to_string()),
                        "index": J::n(p.index),
                        "trait": J::s(tcx.def_path_str(tp.def_id())),
                    });
                }
            }
        }
        o.push(("bounds", J::Arr(bounds)));
        let mut gidx = Vec::new();
        {
            let mut g = Some(generics);
            while let Some(gg) = g {
                for p in &gg.own_params {
                    gidx.push(obj! {"name": J::s(p.name.to_string()), "index": J::n(p.index),
                        "kind": J::s(match p.kind { rustc_middle::ty::GenericParamDefKind::Lifetime => "lt", rustc_middle::ty::GenericParamDefKind::Type{..} => "ty", _ => "const" })});
                }
                g = gg.parent.map(|p| tcx.generics_of(p));
            }
        }
        o.push(("generic_params", J::Arr(gidx)));
        o.push(("hir", hirdump::export_hir_fn(tcx, ldid)));
    } else {
        o.push(("closure_of", J::s(tcx.def_path_str(tcx.typeck_root_def_id(did)))));
    }
    o.push(("mir", mirdump::export_mir(tcx, ldid)));
    J::Obj(o)
}

fn main() {
    let mut args: Vec<String> = std::env::args().collect();
    // wrapper protocol: argv[1] is the path of the real rustc
    if args.len() > 1 && (args[1].ends_with("rustc") || args[1].contains("/rustc")) {
        args.remove(1);
    }
    let crates: Vec<String> = std::env::var("SIMLINT_CRATES")
        .unwrap_or_else(|_| "similar".to_string())
        .split(',')
        .map(|s| s.trim().to_string())
        .collect();
    let out_dir = std::env::var("SIMLINT_OUT_DIR").unwrap_or_else(|_| ".".to_string());
    let mut cb = Cb { crates, out_dir };
    rustc_driver::run_compiler(&args, &mut cb);
}
