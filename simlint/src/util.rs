use crate::json::J;
use rustc_middle::ty::{self, GenericArgKind, Ty, TyCtxt};
use rustc_span::Span;

pub fn file_line<'tcx>(tcx: TyCtxt<'tcx>, span: Span) -> (String, usize) {
    let span = span.source_callsite();
    let sm = tcx.sess.source_map();
    let loc = sm.lookup_char_pos(span.lo());
    let name = format!("{}", loc.file.name.prefer_local_unconditionally());
    (name, loc.line)
}

pub fn line<'tcx>(tcx: TyCtxt<'tcx>, span: Span) -> usize {
    let span = span.source_callsite();
    tcx.sess.source_map().lookup_char_pos(span.lo()).line
}

pub fn snippet<'tcx>(tcx: TyCtxt<'tcx>, span: Span, max: usize) -> String {
    let span = span.source_callsite();
    match tcx.sess.source_map().span_to_snippet(span) {
        Ok(s) => {
            let s: String = s.split_whitespace().collect::<Vec<_>>().join(" ");
            if s.chars().count() > max {
                let t: String = s.chars().take(max).collect();
                format!("{}…", t)
            } else {
                s
            }
        }
        Err(_) => String::new(),
    }
}

pub fn generic_args_json<'tcx>(tcx: TyCtxt<'tcx>, args: ty::GenericArgsRef<'tcx>) -> J {
    let mut v = Vec::new();
    for a in args.iter() {
        match a.kind() {
            GenericArgKind::Type(t) => v.push(ty_json(tcx, t)),
            GenericArgKind::Lifetime(_) => v.push(obj! {"k": J::s("lt")}),
            GenericArgKind::Const(c) => v.push(obj! {"k": J::s("const"), "s": J::s(c.to_string())}),
        }
    }
    J::Arr(v)
}

/// Structured type: enough for structural unification on the python side.
pub fn ty_json<'tcx>(tcx: TyCtxt<'tcx>, t: Ty<'tcx>) -> J {
    match t.kind() {
        ty::Bool | ty::Char | ty::Int(_) | ty::Uint(_) | ty::Float(_) | ty::Str | ty::Never => {
            obj! {"k": J::s("prim"), "n": J::s(t.to_string())}
        }
        ty::Adt(def, args) => obj! {
            "k": J::s("adt"),
            "path": J::s(tcx.def_path_str(def.did())),
            "args": generic_args_json(tcx, args),
        },
        ty::Ref(_, inner, m) => obj! {
            "k": J::s("ref"),
            "mut": J::Bool(m.is_mut()),
            "t": ty_json(tcx, *inner),
        },
        ty::RawPtr(inner, m) => obj! {
            "k": J::s("ptr"),
            "mut": J::Bool(m.is_mut()),
            "t": ty_json(tcx, *inner),
        },
        ty::Slice(inner) => obj! {"k": J::s("slice"), "t": ty_json(tcx, *inner)},
        ty::Array(inner, n) => obj! {"k": J::s("array"), "t": ty_json(tcx, *inner), "n": J::s(n.to_string())},
        ty::Tuple(ts) => obj! {
            "k": J::s("tuple"),
            "ts": J::Arr(ts.iter().map(|x| ty_json(tcx, x)).collect()),
        },
        ty::Param(p) => obj! {"k": J::s("param"), "n": J::s(p.name.to_string()), "i": J::n(p.index)},
        ty::FnDef(did, args) => obj! {
            "k": J::s("fndef"),
            "path": J::s(tcx.def_path_str(*did)),
            "args": generic_args_json(tcx, args),
        },
        ty::Closure(did, _) => obj! {
            "k": J::s("closure"),
            "path": J::s(tcx.def_path_str(*did)),
        },
        ty::Alias(aty) => obj! {
            "k": J::s("alias"),
            "s": J::s(t.to_string()),
            "path": J::s(tcx.def_path_str(aty.kind.def_id())),
            "args": generic_args_json(tcx, aty.args),
        },
        _ => obj! {"k": J::s("other"), "s": J::s(t.to_string())},
    }
}
