use crate::json::J;
use crate::util;
use rustc_hir as hir;
use rustc_hir::def::{DefKind, Res};
use rustc_hir::def_id::LocalDefId;
use rustc_hir::{Expr, ExprKind, Pat, PatKind, QPath, StmtKind};
use rustc_middle::ty::{self, TyCtxt, TypeckResults};

pub fn export_hir_fn<'tcx>(tcx: TyCtxt<'tcx>, ldid: LocalDefId) -> J {
    let body = match tcx.hir_maybe_body_owned_by(ldid) {
        Some(b) => b,
        None => return J::Null,
    };
    let tr = tcx.typeck(ldid);
    let cx = Hx { tcx, tr };
    let mut params = Vec::new();
    for p in body.params {
        let t = tr.pat_ty(p.pat);
        params.push(obj! {
            "pat": cx.pat(p.pat),
            "ty": J::s(t.to_string()),
            "tyj": util::ty_json(tcx, t),
        });
    }
    obj! {
        "params": J::Arr(params),
        "body": cx.expr(body.value),
    }
}

struct Hx<'tcx> {
    tcx: TyCtxt<'tcx>,
    tr: &'tcx TypeckResults<'tcx>,
}

impl<'tcx> Hx<'tcx> {
    fn res(&self, r: Res) -> J {
        match r {
            Res::Local(hid) => obj! {
                "k": J::s("local"),
                "id": J::n(hid.local_id.as_u32()),
                "name": J::s(self.tcx.hir_name(hid).to_string()),
            },
            Res::Def(kind, did) => {
                let mut o = vec![
                    ("k", J::s("def")),
                    ("dk", J::s(format!("{:?}", kind))),
                    ("path", J::s(self.tcx.def_path_str(did))),
                ];
                if let DefKind::Ctor(..) = kind {
                    // path of the variant / struct the ctor belongs to
                    let p = self.tcx.parent(did);
                    o.push(("ctor_of", J::s(self.tcx.def_path_str(p))));
                }
                J::Obj(o)
            }
            Res::SelfCtor(_) => obj! {"k": J::s("selfctor")},
            Res::SelfTyParam { .. } | Res::SelfTyAlias { .. } => obj! {"k": J::s("selfty")},
            Res::PrimTy(_) => obj! {"k": J::s("primty")},
            _ => obj! {"k": J::s("other")},
        }
    }

    fn qres(&self, q: &QPath<'tcx>, hid: hir::HirId) -> J {
        self.res(self.tr.qpath_res(q, hid))
    }

    fn pat(&self, p: &Pat<'tcx>) -> J {
        let line = util::line(self.tcx, p.span);
        let ty = self.tr.pat_ty(p).to_string();
        let mut o: Vec<(&'static str, J)> = vec![("line", J::n(line)), ("ty", J::s(ty))];
        match &p.kind {
            PatKind::Wild => o.push(("k", J::s("wild"))),
            PatKind::Binding(mode, hid, ident, sub) => {
                o.push(("k", J::s("bind")));
                o.push(("id", J::n(hid.local_id.as_u32())));
                o.push(("name", J::s(ident.name.to_string())));
                o.push(("byref", J::Bool(matches!(mode.0, hir::ByRef::Yes(..)))));
                if let Some(s) = sub {
                    o.push(("sub", self.pat(s)));
                }
            }
            PatKind::Struct(q, fields, ..) => {
                o.push(("k", J::s("struct")));
                o.push(("res", self.qres(q, p.hir_id)));
                let mut fs = Vec::new();
                for f in *fields {
                    fs.push(obj! {"name": J::s(f.ident.name.to_string()), "pat": self.pat(f.pat)});
                }
                o.push(("fields", J::Arr(fs)));
            }
            PatKind::TupleStruct(q, pats, dd) => {
                o.push(("k", J::s("tuplestruct")));
                o.push(("res", self.qres(q, p.hir_id)));
                o.push(("pats", J::Arr(pats.iter().map(|x| self.pat(x)).collect())));
                o.push(("ddpos", match dd.as_opt_usize() { Some(n) => J::n(n), None => J::Null }));
            }
            PatKind::Tuple(pats, dd) => {
                o.push(("k", J::s("tuple")));
                o.push(("pats", J::Arr(pats.iter().map(|x| self.pat(x)).collect())));
                o.push(("ddpos", match dd.as_opt_usize() { Some(n) => J::n(n), None => J::Null }));
            }
            PatKind::Or(pats) => {
                o.push(("k", J::s("or")));
                o.push(("pats", J::Arr(pats.iter().map(|x| self.pat(x)).collect())));
            }
            PatKind::Ref(inner, ..) => {
                o.push(("k", J::s("ref")));
                o.push(("pat", self.pat(inner)));
            }
            PatKind::Box(inner) => {
                o.push(("k", J::s("ref")));
                o.push(("pat", self.pat(inner)));
            }
            PatKind::Expr(pe) => {
                o.push(("k", J::s("expr")));
                match &pe.kind {
                    hir::PatExprKind::Path(q) => {
                        o.push(("res", self.qres(q, pe.hir_id)));
                    }
                    hir::PatExprKind::Lit { lit, negated } => {
                        o.push(("lit", J::s(util::snippet(self.tcx, pe.span, 40))));
                    }
                    #[allow(unreachable_patterns)]
                    _ => {}
                }
            }
            PatKind::Slice(a, m, b) => {
                o.push(("k", J::s("slice")));
                o.push(("pats", J::Arr(a.iter().chain(b.iter()).map(|x| self.pat(x)).collect())));
                o.push(("has_mid", J::Bool(m.is_some())));
            }
            other => {
                o.push(("k", J::s("other")));
                o.push(("src", J::s(util::snippet(self.tcx, p.span, 60))));
            }
        }
        J::Obj(o)
    }

    fn block(&self, b: &hir::Block<'tcx>) -> J {
        let mut stmts = Vec::new();
        for s in b.stmts {
            match &s.kind {
                StmtKind::Let(l) => {
                    stmts.push(obj! {
                        "k": J::s("let"),
                        "pat": self.pat(l.pat),
                        "init": match l.init { Some(e) => self.expr(e), None => J::Null },
                        "els": match l.els { Some(b) => self.block(b), None => J::Null },
                        "line": J::n(util::line(self.tcx, s.span)),
                    });
                }
                StmtKind::Expr(e) | StmtKind::Semi(e) => {
                    stmts.push(obj! {"k": J::s("expr"), "e": self.expr(e), "semi": J::Bool(matches!(s.kind, StmtKind::Semi(_)))});
                }
                StmtKind::Item(_) => {}
            }
        }
        obj! {
            "stmts": J::Arr(stmts),
            "expr": match b.expr { Some(e) => self.expr(e), None => J::Null },
        }
    }

    fn exprs(&self, es: &[Expr<'tcx>]) -> J {
        J::Arr(es.iter().map(|e| self.expr(e)).collect())
    }

    fn expr(&self, e: &Expr<'tcx>) -> J {
        let tcx = self.tcx;
        let line = util::line(tcx, e.span);
        let ty = self.tr.expr_ty(e);
        let mut o: Vec<(&'static str, J)> = vec![
            ("id", J::n(e.hir_id.local_id.as_u32())),
            ("line", J::n(line)),
            ("ty", J::s(ty.to_string())),
        ];
        if e.span.from_expansion() {
            o.push(("exp", J::Bool(true)));
        }
        macro_rules! k {
            ($s:literal) => {
                o.push(("k", J::s($s)))
            };
        }
        let overloaded = |o: &mut Vec<(&'static str, J)>| {
            if let Some(did) = self.tr.type_dependent_def_id(e.hir_id) {
                o.push(("method", J::s(tcx.def_path_str(did))));
            }
        };
        match &e.kind {
            ExprKind::Lit(l) => {
                k!("lit");
                o.push(("src", J::s(util::snippet(tcx, e.span, 60))));
                o.push(("lit", J::s(format!("{:?}", l.node))));
            }
            ExprKind::Path(q) => {
                k!("path");
                o.push(("res", self.qres(q, e.hir_id)));
                if let Some(args) = self.tr.node_args_opt(e.hir_id) {
                    o.push(("gargs", util::generic_args_json(tcx, args)));
                }
            }
            ExprKind::Call(f, args) => {
                k!("call");
                o.push(("f", self.expr(f)));
                o.push(("args", self.exprs(args)));
                o.push(("src", J::s(util::snippet(tcx, e.span, 100))));
            }
            ExprKind::MethodCall(seg, recv, args, _) => {
                k!("mcall");
                o.push(("name", J::s(seg.ident.name.to_string())));
                if let Some(did) = self.tr.type_dependent_def_id(e.hir_id) {
                    o.push(("method", J::s(tcx.def_path_str(did))));
                    o.push(("local", J::Bool(did.is_local())));
                    let parent = tcx.parent(did);
                    match tcx.def_kind(parent) {
                        DefKind::Trait => o.push(("trait", J::s(tcx.def_path_str(parent)))),
                        DefKind::Impl { of_trait } => {
                            let self_ty = tcx.type_of(parent).instantiate_identity().skip_norm_wip();
                            o.push(("impl_self", J::s(self_ty.to_string())));
                            if of_trait {
                                let trf = tcx.impl_trait_ref(parent).instantiate_identity().skip_norm_wip();
                                o.push(("impl_trait", J::s(tcx.def_path_str(trf.def_id))));
                            }
                        }
                        _ => {}
                    }
                }
                if let Some(args) = self.tr.node_args_opt(e.hir_id) {
                    o.push(("gargs", util::generic_args_json(tcx, args)));
                }
                o.push(("recv", self.expr(recv)));
                o.push(("recv_ty", J::s(self.tr.expr_ty_adjusted(recv).to_string())));
                o.push(("args", self.exprs(args)));
                o.push(("src", J::s(util::snippet(tcx, e.span, 100))));
            }
            ExprKind::Tup(es) => {
                k!("tup");
                o.push(("es", self.exprs(es)));
            }
            ExprKind::Array(es) => {
                k!("array");
                o.push(("es", self.exprs(es)));
            }
            ExprKind::Binary(op, l, r) => {
                k!("binary");
                o.push(("op", J::s(op.node.as_str())));
                o.push(("l", self.expr(l)));
                o.push(("r", self.expr(r)));
                overloaded(&mut o);
                o.push(("src", J::s(util::snippet(tcx, e.span, 100))));
            }
            ExprKind::Unary(op, x) => {
                k!("unary");
                o.push(("op", J::s(format!("{:?}", op))));
                o.push(("x", self.expr(x)));
                overloaded(&mut o);
            }
            ExprKind::Cast(x, _) => {
                k!("cast");
                o.push(("x", self.expr(x)));
            }
            ExprKind::Type(x, _) => {
                k!("cast");
                o.push(("x", self.expr(x)));
            }
            ExprKind::DropTemps(x) => {
                k!("droptemps");
                o.push(("x", self.expr(x)));
            }
            ExprKind::Let(l) => {
                k!("letx");
                o.push(("pat", self.pat(l.pat)));
                o.push(("init", self.expr(l.init)));
            }
            ExprKind::If(c, t, f) => {
                k!("if");
                o.push(("c", self.expr(c)));
                o.push(("t", self.expr(t)));
                o.push(("f", match f { Some(x) => self.expr(x), None => J::Null }));
            }
            ExprKind::Loop(b, _, src, _) => {
                k!("loop");
                o.push(("source", J::s(format!("{:?}", src).split('(').next().unwrap_or("").to_string())));
                o.push(("body", self.block(b)));
            }
            ExprKind::Match(s, arms, src) => {
                k!("match");
                o.push(("source", J::s(format!("{:?}", src).split('(').next().unwrap_or("").to_string())));
                o.push(("scrut", self.expr(s)));
                let mut as_ = Vec::new();
                for a in *arms {
                    as_.push(obj! {
                        "pat": self.pat(a.pat),
                        "guard": match a.guard { Some(g) => self.expr(g), None => J::Null },
                        "body": self.expr(a.body),
                    });
                }
                o.push(("arms", J::Arr(as_)));
            }
            ExprKind::Closure(c) => {
                k!("closure");
                let body = tcx.hir_body(c.body);
                o.push(("def", J::s(tcx.def_path_str(c.def_id.to_def_id()))));
                o.push((
                    "params",
                    J::Arr(body.params.iter().map(|p| self.pat(p.pat)).collect()),
                ));
                o.push(("body", self.expr(body.value)));
            }
            ExprKind::Block(b, _) => {
                k!("block");
                o.push(("b", self.block(b)));
            }
            ExprKind::Assign(l, r, _) => {
                k!("assign");
                o.push(("l", self.expr(l)));
                o.push(("r", self.expr(r)));
                o.push(("src", J::s(util::snippet(tcx, e.span, 100))));
            }
            ExprKind::AssignOp(op, l, r) => {
                k!("assignop");
                o.push(("op", J::s(op.node.as_str())));
                o.push(("l", self.expr(l)));
                o.push(("r", self.expr(r)));
                overloaded(&mut o);
                o.push(("src", J::s(util::snippet(tcx, e.span, 100))));
            }
            ExprKind::Field(b, ident) => {
                k!("field");
                o.push(("base", self.expr(b)));
                o.push(("name", J::s(ident.name.to_string())));
                o.push(("base_ty", J::s(self.tr.expr_ty_adjusted(b).to_string())));
            }
            ExprKind::Index(b, i, _) => {
                k!("index");
                o.push(("base", self.expr(b)));
                o.push(("idx", self.expr(i)));
                o.push(("base_ty", J::s(self.tr.expr_ty_adjusted(b).to_string())));
                overloaded(&mut o);
                o.push(("src", J::s(util::snippet(tcx, e.span, 100))));
            }
            ExprKind::AddrOf(_, m, x) => {
                k!("addrof");
                o.push(("mut", J::Bool(m.is_mut())));
                o.push(("x", self.expr(x)));
            }
            ExprKind::Break(dest, x) => {
                k!("break");
                o.push(("x", match x { Some(x) => self.expr(x), None => J::Null }));
            }
            ExprKind::Continue(_) => {
                k!("continue");
            }
            ExprKind::Ret(x) => {
                k!("ret");
                o.push(("x", match x { Some(x) => self.expr(x), None => J::Null }));
            }
            ExprKind::Struct(q, fields, tail) => {
                k!("struct");
                o.push(("res", self.qres(q, e.hir_id)));
                
                if let QPath::Resolved(_, p) = q {
                    // nothing
                }
                if let ty::Adt(def, _) = ty.kind() {
                    o.push(("adt", J::s(tcx.def_path_str(def.did()))));
                }
                let mut fs = Vec::new();
                for f in *fields {
                    fs.push(obj! {
                        "name": J::s(f.ident.name.to_string()),
                        "e": self.expr(f.expr),
                        "line": J::n(util::line(tcx, f.span)),
                    });
                }
                o.push(("fields", J::Arr(fs)));
                o.push(("src", J::s(util::snippet(tcx, e.span, 100))));
            }
            ExprKind::Repeat(x, _) => {
                k!("repeat");
                o.push(("x", self.expr(x)));
            }
            ExprKind::Use(x, _) => {
                k!("droptemps");
                o.push(("x", self.expr(x)));
            }
            ExprKind::ConstBlock(_) => {
                k!("constblock");
            }
            other => {
                k!("other");
                o.push(("src", J::s(util::snippet(tcx, e.span, 80))));
            }
        }
        // adjustments that matter: autoderef count is not needed; record the adjusted type
        let adj = self.tr.expr_ty_adjusted(e);
        if adj != ty {
            o.push(("adj_ty", J::s(adj.to_string())));
        }
        J::Obj(o)
    }
}
