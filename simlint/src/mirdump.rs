use crate::json::J;
use crate::util::{self, ty_json};
use rustc_hir::def_id::LocalDefId;
use rustc_middle::mir::{
    self, AggregateKind, BasicBlock, Body, Operand, Place, PlaceRef, ProjectionElem, Rvalue,
    StatementKind, TerminatorKind,
};
use rustc_middle::ty::{self, Ty, TyCtxt};

pub fn export_mir<'tcx>(tcx: TyCtxt<'tcx>, ldid: LocalDefId) -> J {
    let did = ldid.to_def_id();
    if !tcx.is_mir_available(did) {
        return J::Null;
    }
    let body: &Body<'tcx> = tcx.optimized_mir(did);
    let cx = Cx { tcx, body, owner: ldid };
    let mut locals = Vec::new();
    let mut names: Vec<Option<String>> = vec![None; body.local_decls.len()];
    for vdi in &body.var_debug_info {
        if let mir::VarDebugInfoContents::Place(p) = &vdi.value {
            if p.projection.is_empty() {
                names[p.local.as_usize()] = Some(vdi.name.to_string());
            }
        }
    }
    for (l, decl) in body.local_decls.iter_enumerated() {
        locals.push(obj! {
            "ty": ty_json(tcx, decl.ty),
            "ty_str": J::s(decl.ty.to_string()),
            "name": match &names[l.as_usize()] { Some(n) => J::s(n.clone()), None => J::Null },
            "line": J::n(util::line(tcx, decl.source_info.span)),
        });
    }
    // closure upvar debug names (captured variables)
    let mut upvars = Vec::new();
    for vdi in &body.var_debug_info {
        if let mir::VarDebugInfoContents::Place(p) = &vdi.value {
            if !p.projection.is_empty() {
                upvars.push(obj! {"name": J::s(vdi.name.to_string()), "place": cx.place(p.as_ref())});
            }
        }
    }
    let mut blocks = Vec::new();
    for (bb, data) in body.basic_blocks.iter_enumerated() {
        let mut stmts = Vec::new();
        for st in &data.statements {
            if let Some(j) = cx.stmt(st) {
                stmts.push(j);
            }
        }
        let term = data.terminator();
        blocks.push(obj! {
            "stmts": J::Arr(stmts),
            "term": cx.term(term),
            "cleanup": J::Bool(data.is_cleanup),
        });
    }
    obj! {
        "arg_count": J::n(body.arg_count),
        "locals": J::Arr(locals),
        "upvars": J::Arr(upvars),
        "blocks": J::Arr(blocks),
    }
}

struct Cx<'a, 'tcx> {
    tcx: TyCtxt<'tcx>,
    body: &'a Body<'tcx>,
    owner: LocalDefId,
}

impl<'a, 'tcx> Cx<'a, 'tcx> {
    fn place(&self, p: PlaceRef<'tcx>) -> J {
        let mut proj = Vec::new();
        for (base, elem) in p.iter_projections() {
            let base_ty = base.ty(&self.body.local_decls, self.tcx);
            match elem {
                ProjectionElem::Deref => proj.push(J::s("deref")),
                ProjectionElem::Field(f, fty) => {
                    let mut name = J::Null;
                    if let ty::Adt(def, _) = base_ty.ty.kind() {
                        let vidx = base_ty.variant_index.unwrap_or(rustc_abi::FIRST_VARIANT);
                        if def.is_enum() || def.is_struct() || def.is_union() {
                            if let Some(v) = def.variants().get(vidx) {
                                if let Some(fd) = v.fields.get(f) {
                                    name = J::s(fd.name.to_string());
                                }
                            }
                        }
                    }
                    proj.push(obj! {"field": J::n(f.as_usize()), "name": name, "ty": J::s(fty.to_string())});
                }
                ProjectionElem::Index(l) => proj.push(obj! {"index": J::n(l.as_usize())}),
                ProjectionElem::Downcast(name, idx) => proj.push(obj! {
                    "downcast": match name { Some(n) => J::s(n.to_string()), None => J::Null },
                    "variant": J::n(idx.as_usize()),
                }),
                ProjectionElem::ConstantIndex { offset, from_end, .. } => {
                    proj.push(obj! {"const_index": J::n(offset), "from_end": J::Bool(from_end)})
                }
                other => proj.push(obj! {"other": J::s(format!("{:?}", other))}),
            }
        }
        obj! {"l": J::n(p.local.as_usize()), "proj": J::Arr(proj)}
    }

    fn operand(&self, op: &Operand<'tcx>) -> J {
        match op {
            Operand::Copy(p) => obj! {"k": J::s("copy"), "p": self.place(p.as_ref())},
            Operand::Move(p) => obj! {"k": J::s("move"), "p": self.place(p.as_ref())},
            Operand::Constant(c) => {
                let t = c.const_.ty();
                let mut o = vec![
                    ("k", J::s("const")),
                    ("ty", J::s(t.to_string())),
                    ("val", J::s(format!("{}", c.const_))),
                ];
                if let ty::FnDef(did, args) = t.kind() {
                    o.push(("fn", self.callee(*did, args)));
                }
                J::Obj(o)
            }
            #[allow(unreachable_patterns)]
            other => obj! {"k": J::s("other"), "dbg": J::s(format!("{:?}", other))},
        }
    }

    fn callee(&self, did: rustc_hir::def_id::DefId, args: ty::GenericArgsRef<'tcx>) -> J {
        let tcx = self.tcx;
        let mut o = vec![
            ("path", J::s(tcx.def_path_str(did))),
            ("path_args", J::s(tcx.def_path_str_with_args(did, args))),
            ("args", util::generic_args_json(tcx, args)),
            ("local", J::Bool(did.is_local())),
            ("krate", J::s(tcx.crate_name(did.krate).to_string())),
        ];
        use rustc_hir::def::DefKind;
        if matches!(tcx.def_kind(did), DefKind::AssocFn) {
            let parent = tcx.parent(did);
            match tcx.def_kind(parent) {
                DefKind::Trait => {
                    o.push(("trait", J::s(tcx.def_path_str(parent))));
                    o.push(("method", J::s(tcx.item_name(did).to_string())));
                    // Self type of the call
                    if let Some(self_ty) = args.types().next() {
                        o.push(("self_ty", ty_json(tcx, self_ty)));
                        o.push(("self_ty_str", J::s(self_ty.to_string())));
                    }
                    // try to resolve to an impl in the caller's environment
                    let env = ty::TypingEnv::post_analysis(tcx, self.owner.to_def_id());
                    if let Ok(Some(inst)) = ty::Instance::try_resolve(tcx, env, did, args) {
                        let rd = inst.def_id();
                        if rd != did {
                            o.push(("resolved", J::s(tcx.def_path_str(rd))));
                            o.push(("resolved_local", J::Bool(rd.is_local())));
                        }
                    }
                }
                DefKind::Impl { of_trait } => {
                    o.push(("method", J::s(tcx.item_name(did).to_string())));
                    let self_ty = tcx.type_of(parent).instantiate_identity().skip_norm_wip();
                    o.push(("impl_self", J::s(self_ty.to_string())));
                    if of_trait {
                        let trf = tcx.impl_trait_ref(parent).instantiate_identity().skip_norm_wip();
                        o.push(("impl_trait", J::s(tcx.def_path_str(trf.def_id))));
                    }
                }
                _ => {}
            }
        }
        J::Obj(o)
    }

    fn rvalue(&self, rv: &Rvalue<'tcx>) -> J {
        match rv {
            Rvalue::Use(op, ..) => obj! {"k": J::s("use"), "op": self.operand(op)},
            Rvalue::Ref(_, bk, p) => obj! {
                "k": J::s("ref"),
                "mut": J::Bool(matches!(bk, mir::BorrowKind::Mut { .. })),
                "p": self.place(p.as_ref()),
            },
            Rvalue::RawPtr(_, p) => obj! {"k": J::s("rawptr"), "p": self.place(p.as_ref())},
            Rvalue::Cast(ck, op, t) => obj! {
                "k": J::s("cast"),
                "ck": J::s(format!("{:?}", ck)),
                "op": self.operand(op),
                "ty": J::s(t.to_string()),
            },
            Rvalue::BinaryOp(bop, ops) => obj! {
                "k": J::s("binop"),
                "op": J::s(format!("{:?}", bop)),
                "l": self.operand(&ops.0),
                "r": self.operand(&ops.1),
            },
            Rvalue::UnaryOp(uop, op) => obj! {
                "k": J::s("unop"),
                "op": J::s(format!("{:?}", uop)),
                "x": self.operand(op),
            },
            Rvalue::Discriminant(p) => obj! {"k": J::s("discr"), "p": self.place(p.as_ref())},
            Rvalue::CopyForDeref(p) => obj! {"k": J::s("use"), "op": obj!{"k": J::s("copy"), "p": self.place(p.as_ref())}},
            Rvalue::Aggregate(ak, ops) => {
                let mut o = vec![("k", J::s("aggregate"))];
                match &**ak {
                    AggregateKind::Tuple => o.push(("ak", J::s("tuple"))),
                    AggregateKind::Array(_) => o.push(("ak", J::s("array"))),
                    AggregateKind::Adt(did, vidx, args, _, _) => {
                        o.push(("ak", J::s("adt")));
                        let def = self.tcx.adt_def(*did);
                        o.push(("adt", J::s(self.tcx.def_path_str(*did))));
                        let v = def.variant(*vidx);
                        o.push(("variant", J::s(v.name.to_string())));
                        o.push((
                            "fields",
                            J::Arr(v.fields.iter().map(|f| J::s(f.name.to_string())).collect()),
                        ));
                    }
                    AggregateKind::Closure(did, _) => {
                        o.push(("ak", J::s("closure")));
                        o.push(("closure", J::s(self.tcx.def_path_str(*did))));
                    }
                    other => o.push(("ak", J::s(format!("{:?}", other)))),
                }
                o.push(("ops", J::Arr(ops.iter().map(|x| self.operand(x)).collect())));
                J::Obj(o)
            }
            Rvalue::Repeat(op, n) => obj! {"k": J::s("repeat"), "op": self.operand(op), "n": J::s(n.to_string())},
            other => obj! {"k": J::s("other"), "dbg": J::s(format!("{:?}", other))},
        }
    }

    fn stmt(&self, st: &mir::Statement<'tcx>) -> Option<J> {
        let line = util::line(self.tcx, st.source_info.span);
        match &st.kind {
            StatementKind::Assign(b) => {
                let (p, rv) = &**b;
                Some(obj! {
                    "k": J::s("assign"),
                    "p": self.place(p.as_ref()),
                    "rv": self.rvalue(rv),
                    "line": J::n(line),
                    "exp": J::Bool(st.source_info.span.from_expansion()),
                })
            }
            StatementKind::SetDiscriminant { place, variant_index } => Some(obj! {
                "k": J::s("setdiscr"),
                "p": self.place((**place).as_ref()),
                "variant": J::n(variant_index.as_usize()),
                "line": J::n(line),
            }),
            StatementKind::StorageLive(_)
            | StatementKind::StorageDead(_)
            | StatementKind::Nop
            | StatementKind::FakeRead(..)
            | StatementKind::PlaceMention(..)
            | StatementKind::AscribeUserType(..)
            | StatementKind::Coverage(..)
            | StatementKind::ConstEvalCounter => None,
            other => Some(obj! {"k": J::s("other"), "dbg": J::s(format!("{:?}", other)), "line": J::n(line)}),
        }
    }

    fn term(&self, t: &mir::Terminator<'tcx>) -> J {
        let line = util::line(self.tcx, t.source_info.span);
        let exp = t.source_info.span.from_expansion();
        let bbn = |b: BasicBlock| J::n(b.as_usize());
        let unwind_j = |u: &mir::UnwindAction| match u {
            mir::UnwindAction::Cleanup(b) => J::n(b.as_usize()),
            _ => J::Null,
        };
        match &t.kind {
            TerminatorKind::Goto { target } => obj! {"k": J::s("goto"), "target": bbn(*target)},
            TerminatorKind::SwitchInt { discr, targets } => {
                let mut vals = Vec::new();
                let mut tgts = Vec::new();
                for (v, b) in targets.iter() {
                    vals.push(J::s(v.to_string()));
                    tgts.push(bbn(b));
                }
                let dty = discr.ty(&self.body.local_decls, self.tcx);
                obj! {
                    "k": J::s("switch"),
                    "discr": self.operand(discr),
                    "discr_ty": J::s(dty.to_string()),
                    "values": J::Arr(vals),
                    "targets": J::Arr(tgts),
                    "otherwise": bbn(targets.otherwise()),
                    "line": J::n(line),
                }
            }
            TerminatorKind::Return => obj! {"k": J::s("return"), "line": J::n(line)},
            TerminatorKind::Unreachable => obj! {"k": J::s("unreachable")},
            TerminatorKind::UnwindResume => obj! {"k": J::s("resume")},
            TerminatorKind::UnwindTerminate(_) => obj! {"k": J::s("terminate")},
            TerminatorKind::Drop { place, target, unwind, .. } => obj! {
                "k": J::s("drop"),
                "p": self.place(place.as_ref()),
                "target": bbn(*target),
                "unwind": unwind_j(unwind),
            },
            TerminatorKind::Call { func, args, destination, target, unwind, fn_span, .. } => {
                let (file, _) = util::file_line(self.tcx, *fn_span);
                obj! {
                    "k": J::s("call"),
                    "func": self.operand(func),
                    "args": J::Arr(args.iter().map(|a| self.operand(&a.node)).collect()),
                    "dest": self.place(destination.as_ref()),
                    "target": match target { Some(b) => bbn(*b), None => J::Null },
                    "unwind": unwind_j(unwind),
                    "line": J::n(line),
                    "file": J::s(file),
                    "exp": J::Bool(exp),
                    "src": J::s(util::snippet(self.tcx, t.source_info.span, 100)),
                }
            }
            TerminatorKind::Assert { cond, expected, target, msg, .. } => obj! {
                "k": J::s("assert"),
                "cond": self.operand(cond),
                "expected": J::Bool(*expected),
                "target": bbn(*target),
                "msg": J::s(format!("{:?}", msg)),
                "line": J::n(line),
            },
            TerminatorKind::FalseEdge { real_target, .. } => obj! {"k": J::s("goto"), "target": bbn(*real_target)},
            TerminatorKind::FalseUnwind { real_target, .. } => obj! {"k": J::s("goto"), "target": bbn(*real_target)},
            other => obj! {"k": J::s("other"), "dbg": J::s(format!("{:?}", other)), "line": J::n(line)},
        }
    }
}
