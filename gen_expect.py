#!/usr/bin/env python3
"""Developer tool: measure rule instance counts on /repo for every configuration and write expect.json floors.
Floors are 60% of the count measured on the pinned (repaired) tree (at least 1); rules whose instance count may
legitimately drop to zero (G1/G2: order-changing sites) have floor 0 and rely on the fixture controls instead."""
import json, os, sys
sys.path.insert(0, os.path.dirname(os.path.abspath(__file__)))
from engines import runner
from engines.facts import Program
from engines.registry import RULES

ZERO_OK = {"G1", "G2", "G9", "G12", "B8", "A8", "A11", "E5", "E6", "F20", "F22", "F23", "F24", "F26"}
out = {}
meas = {}
for cfg in runner.THOROUGH:
    prog = Program(runner.get_facts(cfg))
    for rid, fn in sorted(RULES.items()):
        res = fn(prog, {"tier": "quick"}) if getattr(fn, "wants_opts", False) else fn(prog)
        n = res.instances
        meas.setdefault(rid, {})[cfg] = n
        if res.discharged and rid not in ZERO_OK:
            # a rule that leaves much more undecided than on the pinned tree has lost its grip (tool error)
            out.setdefault("_discharged", {}).setdefault(rid, {})[cfg] = int(res.discharged * 0.6)
        if rid in ZERO_OK or n == 0:
            continue
        out.setdefault(rid, {})[cfg] = max(1, int(n * 0.6))
out["_pinned"] = runner.src_digest("/repo")
with open(os.path.join(os.path.dirname(os.path.abspath(__file__)), "expect.json"), "w") as fh:
    json.dump(out, fh, indent=1, sort_keys=True)
for rid in sorted(meas):
    print(rid, meas[rid])
