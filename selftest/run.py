#!/usr/bin/env python3
"""Developer tool (not part of any verdict): test the checker both ways.

For each catalogue entry, copy /repo to a scratch directory, apply one edit, make sure it still compiles,
run the named property checks with --root <scratch>, and require
  expect=fire   : exit 1 and a VIOLATION whose report mentions `key`
  expect=silent : exit 0 (behaviour-preserving refactor)
The scratch copy is removed afterwards.

usage: selftest/run.py [--only id,id] [--rules A1,B3] [--jobs N] [--keep]
"""
import json
import os
import shutil
import subprocess
import sys
import tempfile
from concurrent.futures import ThreadPoolExecutor

VERIF = os.path.dirname(os.path.dirname(os.path.abspath(__file__)))
REPO = "/repo"


def load():
    out = []
    with open(os.path.join(VERIF, "selftest", "mutants.jsonl")) as fh:
        for line in fh:
            line = line.strip()
            if line and not line.startswith("#"):
                out.append(json.loads(line))
    return out


def apply_edit(root, m):
    edits = m.get("edits") or [m]
    for e in edits:
        if e.get("mv"):
            os.rename(os.path.join(root, e["mv"][0]), os.path.join(root, e["mv"][1]))
            continue
        p = os.path.join(root, e["file"])
        with open(p) as fh:
            s = fh.read()
        n = s.count(e["old"])
        if n == 0:
            raise RuntimeError("%s: pattern not found in %s" % (m["id"], e["file"]))
        k = e.get("nth", 1)
        if e.get("all"):
            s = s.replace(e["old"], e["new"])
        else:
            idx = -1
            for _ in range(k):
                idx = s.index(e["old"], idx + 1)
            s = s[:idx] + e["new"] + s[idx + len(e["old"]):]
        with open(p, "w") as fh:
            fh.write(s)


def run_one(m, keep=False):
    try:
        return _run_one(m, keep)
    except Exception as e:  # a broken catalogue entry must not stop the sweep
        return m, False, [("-", -1, False, "catalogue entry failed: %r" % e)]


def _run_one(m, keep=False):
    root = tempfile.mkdtemp(prefix="simself-%s-" % m["id"], dir="/tmp")
    try:
        subprocess.check_call(["rsync", "-a", "--exclude", "target", "--exclude", ".git", REPO + "/", root + "/"])
        if m.get("patch"):
            subprocess.check_call(["git", "apply", "--whitespace=nowarn", m["patch"]], cwd=root)
            if m.get("edits") or m.get("file"):
                apply_edit(root, m)        # a mutant of a refactored tree: the patch first, then the edit
        else:
            apply_edit(root, m)
        results = []
        ok = True
        for pid in m["props"]:
            p = subprocess.run([os.path.join(VERIF, "check"), pid, "--root", root], stdout=subprocess.PIPE,
                               stderr=subprocess.STDOUT, text=True)
            out = p.stdout
            if m["expect"] == "fire":
                good = p.returncode == 1 and "VIOLATION property=%s" % pid in out and (m.get("key", "") in out)
            else:
                good = p.returncode == 0 and "VIOLATION" not in out
            if "cargo check failed" in out:
                good = False
                out = "DOES NOT COMPILE\n" + out[-1500:]
            results.append((pid, p.returncode, good, out))
            ok = ok and good
        return m, ok, results
    finally:
        if not keep:
            shutil.rmtree(root, ignore_errors=True)


def main():
    ms = load()
    if "--only" in sys.argv:
        ids = set(sys.argv[sys.argv.index("--only") + 1].split(","))
        ms = [m for m in ms if m["id"] in ids]
    if "--rules" in sys.argv:
        rs = set(sys.argv[sys.argv.index("--rules") + 1].split(","))
        ms = [m for m in ms if rs & set(m.get("rules", []))]
    jobs = int(sys.argv[sys.argv.index("--jobs") + 1]) if "--jobs" in sys.argv else 4
    verbose = "-v" in sys.argv
    bad = 0
    with ThreadPoolExecutor(max_workers=jobs) as ex:
        for m, ok, results in ex.map(lambda m: run_one(m, "--keep" in sys.argv), ms):
            print("%-6s %-7s %-4s %s" % (m["id"], m["expect"], "ok" if ok else "FAIL", m.get("what", "")))
            if not ok or verbose:
                for pid, rc, good, out in results:
                    print("    %s rc=%d %s" % (pid, rc, "ok" if good else "MISMATCH"))
                    for line in out.strip().splitlines()[-6:]:
                        print("      | " + line[:300])
            if not ok:
                bad += 1
    print("%d/%d as expected" % (len(ms) - bad, len(ms)))
    return 1 if bad else 0


if __name__ == "__main__":
    sys.exit(main())
