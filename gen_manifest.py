#!/usr/bin/env python3
"""Regenerate MANIFEST.json from spec.py (keeps the interface file consistent with the rule tables)."""
import json, os, sys
sys.path.insert(0, os.path.dirname(os.path.abspath(__file__)))
import spec
from engines.registry import RULES

ENGINE_OF = {"A": "coord", "B": "proto", "C": "deadline", "D": "effects", "E": "guard", "F": "tables", "G": "order"}
TECH = {
    "A": "sort (coordinate/side/frame/unit) inference over type-checked HIR",
    "B": "interprocedural trace summaries + error-path typestate over MIR, type-directed adapter composition",
    "C": "provenance dataflow, dominance and loop-nest rules over MIR",
    "D": "call-graph reachability / effect rules over MIR (incl. fmt::Display edges)",
    "E": "predicate (valuation-set) dataflow over MIR with atom-forgetting widening; cursor and position linear-form rules (consume-advance, tail flush incl. range form, common base, kill-aware position reuse, exact carried positions, prefix/suffix box agreement, equal lengths backed by element comparisons)",
    "F": "structural table / sibling-agreement rules over HIR and MIR; net-effect analysis by conditional constant "
         "propagation over MIR (engines/neteffect.py) for the DiffOp adjust helpers; call-site constant specialisation of helpers; linear normal form of integer guards",
    "G": "order / conservation rules over MIR (swap, remove, stale snapshot, shrink-then-empty, absorb-only-Equal, grouping "
         "passes changes through, bulk removal through dedup_by/retain closures) with dominance and backward-slice evidence",
}

def rule_ids(ps):
    return [r if isinstance(r, str) else r[0] for r in ps["rules"]]

checks = []
for pid in sorted(spec.PROPERTIES):
    ps = spec.PROPERTIES[pid]
    rids = rule_ids(ps)
    fams = sorted({r[0] for r in rids})  # rule family = first letter (F10 -> F)
    checks.append({
        "property_id": pid,
        "quick_cmd": "./check %s --tier quick" % pid,
        "thorough_cmd": "./check %s --tier thorough" % pid,
        "evidence_file": "/verif/evidence/%s.json" % pid,
        "replay_cmd_template": "./check %s --explain {path}" % pid,
        "engine": "simlint+" + "+".join(ENGINE_OF[f] for f in fams),
        "level_claimed": {
            "category": ps["level"],
            "text": ps["explanation"],
            "design_ref": "DESIGN.md section 4 (%s), rules %s in section 3" % (pid, ", ".join(rids)),
        },
        "level_note": "Static analysis only: verdict computed from /repo's current source via rustc's type-checked HIR and "
                      "MIR (-Zmir-opt-level=0) exported by the simlint driver; trusted base = rustc front end, the exporter, "
                      "the rule tables in /verif/spec.py and /verif/engines. Undecided: " + ps.get("undecided", "see text") + ".",
        "technique": "static analysis: " + "; ".join(TECH[f] for f in fams),
    })

man = {
    "version": 1,
    "setup_cmd": "cd /verif/simlint && CARGO_NET_OFFLINE=true cargo build --release --offline 2>&1 | tail -3",
    "hooks": {
        "guard": "similar_verif",
        "enable": "none needed: static analysis reads the unmodified sources (no cfg-guarded hooks were added to /repo)",
        "baseline_off_cmd": "cd /repo && cargo test --workspace --no-fail-fast --offline",
        "source_commits": [],
        "add_only": True,
    },
    "engines": [
        {"name": "simlint", "path": "/verif/simlint", "serves_properties": sorted(spec.PROPERTIES),
         "kind_free_text": "rustc_private driver (nightly) run as RUSTC_WORKSPACE_WRAPPER under cargo check; exports the resolved "
                           "program (HIR+typeck, MIR with resolved callees, items/impls) as JSON facts per feature configuration"},
        {"name": "neteffect", "path": "/verif/engines/neteffect.py",
         "serves_properties": sorted(p for p in spec.PROPERTIES if "F5" in rule_ids(spec.PROPERTIES[p])),
         "kind_free_text": "conditional constant propagation (forward dataflow with joins, callee cloning) over MIR: net effect "
                           "of a &mut self method on the fields of an enum"},
        {"name": "cursor", "path": "/verif/engines/cursor.py",
         "serves_properties": sorted(p for p in spec.PROPERTIES if any(r in ("E2", "E3", "E5", "E6", "E7", "E8", "E9", "E10") for r in rule_ids(spec.PROPERTIES[p]))),
         "kind_free_text": "cursor and position discipline of emission code over MIR (linear forms, first-touch exploration, flush exhaustiveness, kill-aware position reuse, prefix/suffix box agreement, comparison-backed equal lengths)"},
    ] + [
        {"name": n, "path": "/verif/engines/%s.py" % n,
         "serves_properties": sorted(p for p in spec.PROPERTIES if any(r[0] == f for r in rule_ids(spec.PROPERTIES[p]))),
         "kind_free_text": TECH[f]} for f, n in sorted(ENGINE_OF.items())
    ],
    "checks": checks,
    "notes": "Family: static analysis only. Seven genuine defects were reported by the checks and repaired by unguarded `fix:` "
             "commits in /repo (see known_findings.json `fixed`); one known finding (compaction swap, C11/C05) is listed in "
             "known_findings.json and printed as KNOWN-FINDING. `selftest/run.py` (developer command) replays the mutation "
             "catalogue; `seeded/` holds independently written breaking changes, `benign/` behaviour-preserving refactorings. "
             "A check prints `UNDECIDED property=<id> ...` (exit code unaffected) for an obligation a rule could not decide on a "
             "modified tree (unmodelled idiom, lost anchor); see DESIGN.md 12.2h.",
    "not_applicable": [{"property_id": k, "reason": v} for k, v in sorted(spec.NOT_APPLICABLE.items())],
}
with open(os.path.join(os.path.dirname(os.path.abspath(__file__)), "MANIFEST.json"), "w") as fh:
    json.dump(man, fh, indent=1)
print("MANIFEST.json written: %d checks, %d not applicable" % (len(checks), len(man["not_applicable"])))
